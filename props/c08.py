"""C08 - outputs always range over exactly the current arms, one result per context.

After every step of a history of add_arm, remove_arm, fit, partial_fit and warm_start (arm changes before the first
fit included) predict must return members of the current arm list and predict_expectations mappings whose keys are
exactly the current arms in arm-list order; m > 1 rows give a list of m results in row order, one row / no context a
single result.  A sibling bandit built from the *same list object* is modified in between (the arm list of a bandit
is independent of the list it was constructed from).
"""
import copy

import numpy as np

from .common import (LABELS, NP_QUICK, Scenario, ask, gen_batch, is_linear, is_nan, needs_contexts, new_mab, pyval,
                     reward_kind, same_value)
from .c07 import FEATURES


def one_call(env, mab0, cur, tag, ctxd, m, what, det):
    """one query on a private copy of the bandit (runs inside its own isolated block)"""
    mab = copy.deepcopy(mab0)
    if ctxd:
        q = env.reals('q_%s' % tag, (m, ctxd))
    else:
        q = None if m == 1 else np.zeros((2, 1))     # context-free bandits may be called with contexts
    r = ask(mab, what, q)
    if m == 1:
        env.ob('%s.single' % tag, isinstance(r, dict) if what == 'expectations' else not isinstance(r, list))
        rows = [r]
    else:
        env.ob('%s.list' % tag, isinstance(r, list) and len(r) == 2)
        if not isinstance(r, list):
            return
        rows = r
    for i, x in enumerate(rows):
        if what == 'expectations':
            env.ob('%s.row%d.keys' % (tag, i), isinstance(x, dict) and [pyval(k) for k in x] == cur)
        else:
            env.ob('%s.row%d.member' % (tag, i), pyval(x) in cur)
    if m == 2 and det and ctxd and what == 'expectations':
        # row order: each row of the batch equals the answer to that row alone
        for i in range(2):
            single = ask(mab, 'expectations', q[i:i + 1])
            if isinstance(single, dict) and isinstance(rows[i], dict) and list(single) == list(rows[i]):
                env.ob('%s.row%d.order' % (tag, i), env.and_(*[same_value(env, rows[i][k], single[k]) for k in single]))


def check_outputs(env, mab, cur, tag, ctxd, lp, npol, det, ms=(1, 2)):
    env.ob(tag + '.armlist', [pyval(a) for a in mab.arms] == cur)
    for m in ms:
        for what in ('expectations', 'predict'):
            t = '%s.m%d.%s' % (tag, m, what[:4])
            env.isolated(t, lambda t=t, m=m, what=what: one_call(env, mab, list(cur), t, ctxd, m, what, det))


def arm_history(env, lp, npol, ops, A=2, labels='int', d=1, n_jobs=1, twin=False):
    pool = list(LABELS[labels])
    shared = pool[:A]                       # the list object handed to both constructors
    spare = pool[A:]
    cur = list(shared)
    ctxd = d if needs_contexts(lp, npol) else 0
    rk = reward_kind(lp)
    mab, hp = new_mab(env, shared, lp, npol, n_jobs=n_jobs, same_list=True)
    sibling, _ = new_mab(env, shared, 'ucb1' if not is_linear(lp) else lp, None, tag='_sib', same_list=True)
    det = lp in ('ucb1', 'linucb', 'greedy0') and not npol
    fitted = False
    removed = []
    for k, op in enumerate(ops):
        tag = '%s%d' % (op, k)
        if op in 'FP':
            dec, rew, ctx = gen_batch(env, tag.lower(), cur, 2, rk, d=ctxd, fixed_n=2 if op == 'F' else 1)
            args = (np.asarray(dec), rew) + ((ctx,) if ctxd else ())
            if op == 'F' or not fitted:
                if npol and npol.startswith('clusters') and len(dec) < 2:
                    return
                mab.fit(*args)
            else:
                mab.partial_fit(*args)
            fitted = True
        elif op == 'A':
            a = spare.pop(0)
            mab.add_arm(a)
            cur.append(a)
        elif op == 'B':
            if not removed:
                return
            a = removed.pop()
            mab.add_arm(a)
            cur.append(a)
        elif op == 'R':
            if len(cur) < 2:
                return
            a = env.choose('rm%d' % k, cur)
            mab.remove_arm(a)
            cur.remove(a)
            removed.append(a)
        elif op == 'W':
            if len(cur) >= 2 and not npol and fitted:
                mab.warm_start({a: FEATURES[a] for a in cur}, 1.0)
        elif op == 'S':
            # the sibling (same constructor list object) grows an arm, and the caller edits its own list
            sibling.add_arm(pool[-1])
            shared.append('intruder')
        elif op == 'Q':
            # a query on the bandit itself (prediction-time caches are filled)
            if fitted:
                qq = env.reals('Q%d' % k, (1, ctxd)) if ctxd else None
                ask(mab, 'predict', qq)
        elif op == 'q':
            if fitted:
                # every query runs on a copy inside its own isolated block: branches do not multiply with the history
                check_outputs(env, mab, cur, 'q%d' % k, ctxd, lp, npol, det)
        env.ob('%s.arms' % tag, [pyval(a) for a in mab.arms] == cur)
    if twin:
        env.ob('twin.false', False)


SEQS_QUICK = ['AFq', 'RFq', 'FqAq', 'FqAqPq', 'FqRqPq', 'FqRAq', 'FqARq', 'FSqAq', 'FqAWq', 'FqRBq', 'FQRAq', 'FQAq']
SEQS_MORE = ['ARFq', 'FAqRqPq', 'FqRAPq', 'FPqSRq', 'FqAAqRRq', 'FqRqFq', 'FqAPWqRq', 'ASFqPq']

BOUNDS = {
    'quick': dict(histories=SEQS_QUICK, legend='F fit, P partial_fit, A add_arm, R remove_arm, B re-add removed label, '
                  'W warm_start, S sibling bandit/caller list modified, Q query on the bandit itself, q checked queries with 1 and 2 '
                  'rows on copies', arms='2-3', features=1,
                  policies='UCB1, EpsilonGreedy, Thompson, LinUCB, LinGreedy, LinTS; every neighbourhood policy over UCB1'),
    'thorough': dict(histories=SEQS_QUICK + SEQS_MORE, labels='int, str, float', n_jobs='1 and 2 (process-style stub)'),
}
OUTSIDE = ['mixed-type label lists', 'real joblib back ends (task-granular stub)']
ASSUMPTIONS = ['environment stubs as in DESIGN.md 2.3', 'floats are reals']


def scenarios(tier):
    out = []
    q = tier == 'quick'
    combos = [('ucb1', None), ('greedy', None), ('thompson', None), ('linucb', None), ('lingreedy', None), ('lints', None)]
    combos += [('ucb1', n) for n in NP_QUICK]
    if not q:
        combos += [('softmax', None), ('popularity', None), ('random', None), ('thompson', 'radius:cityblock'),
                   ('linucb', 'knearest:1:cityblock'), ('lints', 'radius:cityblock'), ('greedy0', 'tree'),
                   ('thompson', 'clusters:2')]
    seqs = SEQS_QUICK if q else SEQS_QUICK + SEQS_MORE
    for lp, npol in combos:
        for ops in seqs:
            if 'W' in ops and npol:
                continue
            if q and npol and ops in ('FqRBq', 'FqARq', 'RFq'):
                continue
            if npol and npol.startswith(('clusters', 'lsh')) and ops not in ('AFq', 'FqAq', 'FqRAq', 'FSqAq', 'FQRAq'):
                continue
            if q and npol and ops in ('FqAqPq', 'FqRqPq'):
                continue
            heavy = bool(npol) or lp in ('greedy', 'lingreedy')
            for lk in (['int'] if q else ['int', 'str', 'float']):
                if lk != 'int' and (npol or ops not in ('FqRAq', 'FqAqPq', 'AFq')):
                    continue
                out.append(Scenario('%s.%s.%s.%s' % (lp, npol or 'none', ops, lk), arm_history,
                                    dict(lp=lp, npol=npol, ops=ops, labels=lk), weight=(30 if heavy else 5) * len(ops),
                                    max_paths=60000, shards=4 if (npol or '').startswith(('clusters', 'lsh', 'knearest')) else
                                    (2 if heavy else 1),
                                    bounds=dict(lp=lp, np=npol, history=ops, labels=lk)))
        if not q and npol:
            out.append(Scenario('%s.%s.FqAq.njobs2' % (lp, npol), arm_history,
                                dict(lp=lp, npol=npol, ops='FqAq', n_jobs=2), setup=dict(par_other='proc'), weight=100,
                                shards=2, max_paths=60000))
    out.append(Scenario('twin.linucb', arm_history, dict(lp='linucb', npol=None, ops='FqRAq', twin=True), twin=True))
    return out
