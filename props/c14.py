"""C14 - a Thompson binarizer is applied to every reward exactly once.

Relational oracle: a Thompson Sampling bandit constructed with the binarizer BIN and fed raw symbolic rewards versus a
bandit without binarizer fed BIN(decision, reward); BIN is an *uninterpreted* function into {0, 1} (so functions that
are not idempotent on {0, 1} and arm-dependent thresholds are included).  Same seed, same history (fit, partial_fit,
add_arm(arm, BIN2) followed by batches converted by BIN2), under no neighbourhood policy and under Radius, KNearest,
LSHNearest, Clusters and TreeBandit; all outputs must be equal terms.
"""
import copy

import numpy as np

from .common import LABELS, LP, MAB, Scenario, ask, gen_batch, make_np, outputs_equal

KF_TREE = 'KF-C14-treebandit-binarizes-twice'


def binarized_once(env, npol, N, partial=1, add_arm=False, d=1, A=2, m=1, twin=False, feed_after_add=True,
                   initial_binarizer=True):
    arms = list(LABELS['int'][:A])
    ctxd = d if npol else 0
    BIN = env.ufunc('bin', 2)
    BIN2 = env.ufunc('bin2', 2)
    npo, _ = make_np(env, npol)
    seed = env.integer('seed', 0, 2 ** 31 - 1)
    if not initial_binarizer:
        # the bandit starts without a binarizer (its first rewards are binary already); add_arm installs the first one
        BIN = lambda a, r: r       # noqa: E731
    raw = MAB()(list(arms), LP().ThompsonSampling(BIN if initial_binarizer else None), npo, seed=seed)
    pre = MAB()(list(arms), LP().ThompsonSampling(), npo, seed=seed)
    tree = bool(npol) and npol.startswith('tree')
    compat = MAB()(list(arms), LP().ThompsonSampling(), npo, seed=seed) if tree else None
    cur_bin = [BIN]

    def feed(tag, n, first):
        dec, rew, ctx = gen_batch(env, tag, arms, n, 'real' if (initial_binarizer or cur_bin[0] is BIN2) else 'binary', d=ctxd,
                                  fixed_n=n)
        conv = np.empty(n, dtype=object if env.sym else float)
        for i in range(n):
            conv[i] = cur_bin[0](dec[i], rew[i])
        dec = np.asarray(dec)
        for b, r in ((raw, rew), (pre, conv)) + (((compat, conv),) if compat else ()):
            (b.fit if first else b.partial_fit)(*((dec, r) + ((ctx,) if ctxd else ())))
    feed('f', N, True)
    if partial:
        feed('p', partial, False)
    if add_arm:
        new = LABELS['int'][A]
        raw.add_arm(new, BIN2)
        pre.add_arm(new)
        if compat:
            compat.add_arm(new)
        arms.append(new)
        cur_bin[0] = BIN2
        if feed_after_add:
            feed('q', 1, False)
    q = env.reals('query', (m, ctxd)) if ctxd else None
    for what in ('expectations', 'predict'):
        o_raw = ask(copy.deepcopy(raw), what, q)
        o_pre = ask(copy.deepcopy(pre), what, q)
        o_alt = None
        if compat:
            # bug-compatible reference for the listed finding: the leaf policies convert the stored (already converted)
            # rewards once more at prediction time
            c2 = copy.deepcopy(compat)
            c2._imp.lp.binarizer = cur_bin[0]
            o_alt = ask(c2, what, q)
        outputs_equal(env, what[:4], o_raw, o_pre, KF_TREE if compat else None, o_alt)
    if twin:
        env.ob('twin.false', False)


BOUNDS = {
    'quick': dict(rows='2 + 1 by partial_fit (+1 after add_arm with a new binarizer)', arms='2 (+1)', features=1, query_rows=1,
                  neighbourhoods=['none', 'Radius', 'KNearest', 'LSHNearest', 'Clusters', 'TreeBandit'],
                  binarizer='uninterpreted function of (arm, reward) into {0,1}'),
    'thorough': dict(rows='3 + 2', query_rows='1-2'),
}
OUTSIDE = ['binarizers with side effects or that depend on call order', 'floats are reals']
ASSUMPTIONS = ['environment stubs as in DESIGN.md 2.3', 'the pre-converted twin is fed exactly BIN(decision, reward) per row']


def scenarios(tier):
    out = []
    q = tier == 'quick'
    nps = [None, 'radius:cityblock', 'knearest:2:cityblock', 'lsh:1:1', 'clusters:2', 'tree']
    for npol in nps:
        big = (npol or '').startswith(('clusters', 'lsh', 'knearest'))
        N = 2 if q else 3
        out.append(Scenario('%s.fit_partial' % (npol or 'none'), binarized_once, dict(npol=npol, N=N, partial=1 if q else 2),
                            weight=200 if big else 50, shards=6 if big else 2, max_paths=100000,
                            bounds=dict(np=npol, rows=N + 1)))
        out.append(Scenario('%s.add_arm_new_binarizer' % (npol or 'none'), binarized_once,
                            dict(npol=npol, N=2, partial=0 if q else 1, add_arm=True), weight=300 if big else 60,
                            shards=6 if big else 2, max_paths=100000, bounds=dict(np=npol, rows=3)))
        out.append(Scenario('%s.add_arm_then_query' % (npol or 'none'), binarized_once,
                            dict(npol=npol, N=2, partial=0, add_arm=True, feed_after_add=False), weight=150 if big else 40,
                            shards=4 if big else 1, max_paths=100000, bounds=dict(np=npol, rows=2)))
        if not q and npol:
            out.append(Scenario('%s.m2' % npol, binarized_once, dict(npol=npol, N=2, partial=1, m=2), weight=600, shards=8,
                                max_paths=200000))
    # a bandit created without a binarizer whose first binarizer arrives with add_arm: the observations stored so far stay
    for npol in ([None, 'radius:cityblock', 'lsh:1:1'] if q else [None, 'radius:cityblock', 'knearest:2:cityblock', 'lsh:1:1',
                                                                   'clusters:2']):
        for after in (False, True):
            out.append(Scenario('%s.first_binarizer_by_add_arm%s' % (npol or 'none', '.then_batch' if after else ''),
                                binarized_once, dict(npol=npol, N=2, partial=0, add_arm=True, feed_after_add=after,
                                                     initial_binarizer=False), weight=150 if npol else 30,
                                shards=4 if npol else 1, max_paths=100000,
                                bounds=dict(np=npol, history='fit (binary rewards, no binarizer), add_arm(arm, binarizer)' +
                                            (', partial_fit(1 row)' if after else '') + ', query')))
    out.append(Scenario('twin.radius', binarized_once, dict(npol='radius:cityblock', N=1, partial=1, twin=True), twin=True))
    return out
