"""C06 - incremental training equals batch training.

Relational oracle: the same bandit configuration is (A) fit once on the whole row sequence and (B) fit on a
prefix and partial_fit on the remaining rows in a solver-chosen chunking (chunks of one row and chunks that
omit arms included).  Both are then asked for predict_expectations and predict on the same symbolic query from
the same random-stream position; every output term must be equal.
"""
import numpy as np

from .common import (LABELS, Scenario, compositions, gen_batch, is_linear, needs_contexts, new_mab, outputs_equal,
                     reward_kind)


def incr_vs_batch(env, lp, npol, N, A, d, max_chunks, m=1, labels='int', twin=False, rounds=1):
    arms = LABELS[labels][:A]
    ctxd = d if needs_contexts(lp, npol) else 0
    binarizer = None
    rk = reward_kind(lp)
    if lp == 'thompson_bin':
        # Thompson Sampling with an uninterpreted binarizer (not necessarily idempotent on {0, 1}) on raw real rewards
        lp, rk, binarizer = 'thompson', 'real', env.ufunc('bin', 2)
    dec, rew, ctx = gen_batch(env, 'h', arms, N, rk, d=ctxd, fixed_n=N)
    dec = np.asarray(dec)
    if npol and npol.startswith('clusters'):
        k = int(npol.split(':')[1])
        if N < k:
            return
    split = env.choose('split', compositions(N, max_chunks))
    if npol and npol.startswith('clusters') and split[0] < int(npol.split(':')[1]):
        return          # k-means needs at least k rows in the first fit: outside the property
    batch, hp = new_mab(env, arms, lp, npol, binarizer=binarizer)
    incr, _ = new_mab(env, arms, lp, npol, seed=hp['seed'], hp=hp)

    def sl(a, i, j):
        return None if a is None else a[i:j]
    if ctxd:
        batch.fit(dec, rew, ctx)
    else:
        batch.fit(dec, rew)
    pos = 0
    for k, size in enumerate(split):
        args = (dec[pos:pos + size], rew[pos:pos + size]) + ((ctx[pos:pos + size],) if ctxd else ())
        if k == 0:
            incr.fit(*args)
        else:
            incr.partial_fit(*args)
        pos += size
    q = env.reals('q', (m, d)) if ctxd else None
    for rnd in range(rounds):
        e1 = batch.predict_expectations(q) if ctxd else batch.predict_expectations()
        e2 = incr.predict_expectations(q) if ctxd else incr.predict_expectations()
        outputs_equal(env, 'exp%d' % rnd, e1, e2)
        p1 = batch.predict(q) if ctxd else batch.predict()
        p2 = incr.predict(q) if ctxd else incr.predict()
        outputs_equal(env, 'pred%d' % rnd, p1, p2)
    if twin:
        env.ob('twin.false', False)


BOUNDS = {
    'quick': dict(rows='4 (context-free, linear), 3 (neighbourhood policies)', chunks='<= 3 consecutive chunks, any sizes',
                  arms=2, features='<= 2', query_rows=1,
                  policies='all context-free; LinGreedy/LinUCB/LinTS scale=False; Radius, KNearest, LSHNearest, Clusters '
                           'over EpsilonGreedy(0), UCB1, Thompson, LinUCB'),
    'thorough': dict(rows='5 (context-free, linear), 4 (neighbourhood policies)', chunks='<= 4', arms='2-3',
                     features='<= 2', query_rows='1-2'),
}
OUTSIDE = ['TreeBandit and scale=True (excluded by the property)', 'float rounding of running sums (floats are reals)',
           'a first chunk with fewer rows than k-means clusters']
ASSUMPTIONS = ['numpy Generator / KMeans / linalg.inv / sqrt / exp as uninterpreted functions of their normalised '
               'arguments', 'joblib n_jobs=1 sequential']


def scenarios(tier):
    out = []
    q = tier == 'quick'
    cf = ['greedy', 'ucb1', 'softmax', 'popularity', 'thompson', 'random']
    for lp in cf:
        N = 4 if q else 5
        out.append(Scenario('%s.none.N%d' % (lp, N), incr_vs_batch,
                            dict(lp=lp, npol=None, N=N, A=2, d=0, max_chunks=3 if q else 4, rounds=1 if q else 2),
                            weight=2 ** N * (4 if lp in ('greedy', 'softmax') else 1),
                            bounds=dict(lp=lp, rows=N, arms=2)))
        if not q:
            out.append(Scenario('%s.none.N4.A3.str' % lp, incr_vs_batch,
                                dict(lp=lp, npol=None, N=4, A=3, d=0, max_chunks=4, labels='str'), weight=3 ** 4,
                                bounds=dict(lp=lp, rows=4, arms=3)))
    for lp in ['lingreedy', 'linucb', 'lints']:
        for d in (1, 2):
            N = 4 if q else (5 if d == 1 else 4)
            out.append(Scenario('%s.none.N%d.d%d' % (lp, N, d), incr_vs_batch,
                                dict(lp=lp, npol=None, N=N, A=2, d=d, max_chunks=3 if q else 4, m=1 if q else 2),
                                weight=2 ** N * 3, bounds=dict(lp=lp, rows=N, arms=2, d=d)))
    nps = ['radius:cityblock', 'knearest:2:cityblock', 'lsh:1:1', 'clusters:2']
    if not q:
        nps += ['lsh:1:2', 'radius:sqeuclidean', 'knearest:1:chebyshev', 'lsh:2:1', 'clusters:2:mini', 'radius:euclidean']
    for npol in nps:
        for lp in ['greedy0', 'ucb1', 'thompson', 'linucb']:
            N = 3 if q else 4
            d = 1 if (q or lp == 'linucb') else 2
            if npol.startswith('lsh') and not q:
                d = 1
            out.append(Scenario('%s.%s.N%d.d%d' % (lp, npol, N, d), incr_vs_batch,
                                dict(lp=lp, npol=npol, N=N, A=2, d=d, max_chunks=3),
                                weight=2 ** N * 2 ** N * 2, max_paths=80000,
                                bounds=dict(lp=lp, np=npol, rows=N, arms=2, d=d)))
    for npol in ([None, 'clusters:2', 'radius:cityblock'] if q else [None, 'clusters:2', 'radius:cityblock', 'lsh:1:1',
                                                                     'knearest:2:cityblock']):
        N = 3 if (q or npol) else 4
        out.append(Scenario('thompson_bin.%s.N%d.d1' % (npol or 'none', N), incr_vs_batch,
                            dict(lp='thompson_bin', npol=npol, N=N, A=2, d=1, max_chunks=3),
                            weight=2 ** N * 2 ** N * 2, max_paths=80000, shards=4 if npol else 1,
                            bounds=dict(lp='thompson + uninterpreted binarizer', np=npol, rows=N, arms=2, d=1)))
    out.append(Scenario('twin.ucb1.radius', incr_vs_batch,
                        dict(lp='ucb1', npol='radius:cityblock', N=2, A=2, d=1, max_chunks=2, twin=True), twin=True))
    return out
