"""C01 - context-free policies compute the documented statistic of each arm's history.

Reference-model oracle: `common.Ref` keeps, per arm, the raw rewards observed since max(last fit, last
(re-)addition of the label).  After every operation of the history the public `predict_expectations()` of the
real bandit is compared with the documented function of those rewards; for randomised policies the
obligation is about the sampler call recorded by the symbolic generator.
"""
import itertools

import numpy as np

from .common import EPS, LABELS, LP, MAB, Ref, Scenario, gen_batch

POLICIES = ['greedy', 'ucb1', 'softmax', 'popularity', 'thompson', 'random']


def make_policy(env, policy):
    lp = LP()
    if policy == 'greedy':
        eps = env.real('epsilon', 0, 1)
        return lp.EpsilonGreedy(eps), dict(epsilon=eps)
    if policy == 'ucb1':
        alpha = env.real('alpha', 0)
        return lp.UCB1(alpha), dict(alpha=alpha)
    if policy == 'softmax':
        tau = env.real('tau', 0, lo_strict=True)
        return lp.Softmax(tau), dict(tau=tau)
    if policy == 'popularity':
        return lp.Popularity(), {}
    if policy == 'thompson':
        return lp.ThompsonSampling(), {}
    if policy == 'random':
        return lp.Random(), {}
    raise ValueError(policy)


def reward_kind(policy):
    return {'thompson': 'binary', 'popularity': 'nonneg'}.get(policy, 'real')


def dmax(env, vals):
    """python's max() with the same comparison sequence as the builtin (no new forks on the path)"""
    vals = list(vals)
    best = vals[0]
    for v in vals[1:]:
        if env.decide(v > best):
            best = v
    return best


def expected_values(env, policy, hp, ref):
    """documented expectation per current arm (deterministic part)"""
    arms = ref.arms
    if policy in ('greedy',):
        return {a: ref.mean(a) for a in arms}
    if policy == 'ucb1':
        out = {}
        for a in arms:
            n = ref.count(a)
            if n:
                import math
                out[a] = ref.mean(a) + hp['alpha'] * math.sqrt((2 * math.log(ref.N)) / n)
            else:
                out[a] = 0
        return out
    if policy == 'softmax':
        means = {a: ref.mean(a) for a in arms}
        mx = dmax(env, means.values())
        ex = {a: env.exp((means[a] - mx) / hp['tau']) for a in arms}
        tot = 0
        for a in arms:
            tot = tot + ex[a]
        return {a: ex[a] / tot for a in arms}
    if policy == 'popularity':
        means = {a: ref.mean(a) for a in arms}
        tot = 0
        for a in arms:
            tot = tot + means[a]
        if env.decide(env.eq(tot, 0)):
            # normalisation is undefined; the documented fallback (equal shares) is claimed right after a
            # (partial_)fit only - see OUTSIDE
            return {a: 1.0 / len(arms) for a in arms} if ref.fresh else None
        return {a: means[a] / tot for a in arms}
    return None


def check_state(env, mab, policy, hp, ref, tag, kf_pop=None):
    """obligations after one operation of the history"""
    n0 = len(env.log)
    out = mab.predict_expectations()
    calls = env.log[n0:]
    env.ob('%s.keys' % tag, list(out.keys()) == list(ref.arms) and list(mab.arms) == list(ref.arms))
    if list(out.keys()) != list(ref.arms):
        return
    arms = ref.arms
    if policy == 'greedy':
        u = calls[0][2][0]
        if env.decide(u < hp['epsilon']):
            draws = [v for c in calls[1:] for v in c[2]]
            for a in arms:
                env.ob('%s.explore[%s]' % (tag, a), env.or_(*[env.eq(out[a], v) for v in draws]) if draws else False)
        else:
            exp = expected_values(env, policy, hp, ref)
            for a in arms:
                env.ob('%s.mean[%s]' % (tag, a), env.eq(out[a], exp[a]))
                env.observe('%s.mean[%s]' % (tag, a), out[a])
    elif policy == 'ucb1':
        exp = expected_values(env, policy, hp, ref)
        for a in arms:
            env.ob('%s.ucb[%s]' % (tag, a), env.eq(out[a], exp[a]))
            env.observe('%s.ucb[%s]' % (tag, a), out[a])
    elif policy in ('softmax', 'popularity'):
        exp = expected_values(env, policy, hp, ref)
        if policy == 'popularity':
            # whatever the history (also in the degenerate all-zero states whose individual shares are not claimed): the
            # shares handed to the sampler are "normalised to sum to one"
            dc = [c for c in calls if c[0] == 'dirichlet']
            if len(dc) == 1 and len(dc[0][1]) == len(arms):
                tot = 0
                for x in dc[0][1]:
                    tot = tot + (x - EPS)
                env.ob('%s.shares_sum_to_one' % tag, env.eq(tot, 1))
        if exp is None:
            return
        dcalls = [c for c in calls if c[0] == 'dirichlet']
        env.ob('%s.sampler' % tag, len(dcalls) == 1 and len(calls) == 1)
        if len(dcalls) != 1:
            return
        _, alpha, size, outs = dcalls[0]
        env.ob('%s.nparams' % tag, len(alpha) == len(arms))
        if len(alpha) != len(arms):
            return
        for i, a in enumerate(arms):
            env.ob('%s.param[%s]' % (tag, a), env.eq(alpha[i], exp[a] + EPS),
                   kf=kf_pop)
            env.ob('%s.draw[%s]' % (tag, a), env.eq(out[a], outs[i]))
            env.observe('%s.param[%s]' % (tag, a), alpha[i])
    elif policy == 'thompson':
        bcalls = [c for c in calls if c[0] == 'beta']
        env.ob('%s.sampler' % tag, len(bcalls) == len(arms) and len(calls) == len(arms))
        for a in arms:
            s = ref.total(a)
            f = ref.count(a) - s
            env.ob('%s.beta[%s]' % (tag, a),
                   env.or_(*[env.and_(env.eq(out[a], c[4][0]), env.eq(c[1], 1 + s), env.eq(c[2], 1 + f))
                             for c in bcalls]) if bcalls else False)
        for c in bcalls:
            env.observe('%s.betaparams' % tag, [c[1], c[2]])
    elif policy == 'random':
        draws = [v for c in calls if c[0] == 'rand' for v in c[2]]
        env.ob('%s.sampler' % tag, len(calls) >= 1 and all(c[0] == 'rand' for c in calls))
        for a in arms:
            env.ob('%s.draw[%s]' % (tag, a), env.or_(*[env.eq(out[a], v) for v in draws]) if draws else False)


def history(env, policy, ops, A, nmax, labels, twin=False, nmaxs=None):
    pool = LABELS[labels]
    arms = pool[:A]
    spare = list(pool[A:])
    removed = []
    lpol, hp = make_policy(env, policy)
    seed = env.integer('seed', 0, 2 ** 31 - 1)
    mab = MAB()(list(arms), lpol, seed=seed)
    ref = Ref(arms)
    rk = reward_kind(policy)
    nmaxs = list(nmaxs) if nmaxs else None
    dec, rew, _ = gen_batch(env, 'f0', ref.arms, nmaxs.pop(0) if nmaxs else nmax, rk)
    mab.fit(list(dec) if labels != 'int' else np.asarray(dec), rew)
    ref.fit(dec, rew)
    ref.fresh = True
    check_state(env, mab, policy, hp, ref, 'F0')
    for k, op in enumerate(ops, 1):
        tag = '%s%d' % (op, k)
        if op in 'PF':
            dec, rew, _ = gen_batch(env, tag.lower(), ref.arms, nmaxs.pop(0) if nmaxs else nmax, rk)
            if op == 'P':
                mab.partial_fit(np.asarray(dec), rew)
                ref.partial(dec, rew)
            else:
                mab.fit(np.asarray(dec), rew)
                ref.fit(dec, rew)
            ref.fresh = True
        elif op == 'A':
            a = spare.pop(0)
            mab.add_arm(a)
            ref.add(a)
            ref.fresh = False
        elif op == 'R':
            if len(ref.arms) < 2:
                return
            a = env.choose('rm_%d' % k, ref.arms)
            mab.remove_arm(a)
            ref.remove(a)
            removed.append(a)
            ref.fresh = False
        elif op == 'B':
            if not removed:
                return
            a = removed.pop()
            mab.add_arm(a)
            ref.add(a)
            ref.fresh = False
        check_state(env, mab, policy, hp, ref, tag)
    if twin:
        env.ob('twin.false', False)


PAIRS = [''.join(p) for p in itertools.product('PARF', repeat=2)]
TRIPLES = [''.join(p) for p in itertools.product('PARF', repeat=3)]

BOUNDS = {
    'quick': dict(arms='2 initially, <= 3', operations_after_first_fit='every sequence of 2 over {partial_fit, add_arm, '
                  'remove_arm, fit} + RBP, PRB, ARP (B = re-add the removed label)', rows_per_batch='1..2',
                  labels='int (str for PA, RP, RBP, AP, FP)'),
    'thorough': dict(arms='3 initially, <= 5 for the sequences of 2; 2 initially for the sequences of 3',
                     operations_after_first_fit='every sequence of 2 (3 arms) and of 3 (2 arms) over {partial_fit, '
                     'add_arm, remove_arm, fit} + re-add sequences of 3-4', rows_per_batch='1..2',
                     labels='int, str, float'),
}
OUTSIDE = ['decisions naming an arm that is not in the current arm list', 'removing the last arm',
           'IEEE rounding (floats are modelled as reals)', 'histories / arm sets beyond the bounds',
           'Popularity when every observed mean is 0 and the arm set changes afterwards (normalisation undefined)']
ASSUMPTIONS = ['numpy Generator = uninterpreted state machine with range contracts (rand in [0,1), beta in (0,1), '
               'dirichlet >= 0 summing to 1)', 'math.exp uninterpreted (exp > 0)', 'floats are reals',
               'joblib at n_jobs=1 runs tasks sequentially in the caller']


def _mk(policy, ops, A, nmax, lk, nmaxs=None):
    nb = 1 + ops.count('P') + ops.count('F')
    w = ((A + A * A) if nmax == 2 else A) ** nb * (6 if policy in ('softmax', 'greedy') else 1)
    return Scenario('%s.%s.%s.A%d' % (policy, ops or 'fit', lk, A), history,
                    dict(policy=policy, ops=ops, A=A, nmax=nmax, labels=lk, nmaxs=nmaxs), weight=w, max_paths=150000,
                    bounds=dict(policy=policy, ops='F' + ops, arms0=A, rows_per_batch=nmaxs or nmax, labels=lk))


def scenarios(tier):
    out = []
    for policy in POLICIES:
        if tier == 'quick':
            for ops in PAIRS + ['RBP', 'PRB', 'ARP']:
                out.append(_mk(policy, ops, 2, 2, 'int'))
            for ops in ('PA', 'RP', 'RBP', 'AP', 'FP'):
                out.append(_mk(policy, ops, 2, 2, 'str'))
        else:
            for ops in PAIRS + ['RBP', 'PRB', 'ARP']:
                out.append(_mk(policy, ops, 3, 2, 'int'))
            for ops in ('PA', 'RP', 'RBP', 'AP', 'FP', 'PP'):
                out.append(_mk(policy, ops, 3, 2, 'str'))
                out.append(_mk(policy, ops, 2, 2, 'float'))
            for ops in TRIPLES + ['RBPP', 'PRBP', 'RBPF', 'ARBP', 'PRPB', 'RPBP']:
                nb = 1 + ops.count('P') + ops.count('F')
                nm = [2] + [1] * (nb - 2) + [2] if nb >= 3 else [2] * nb
                out.append(_mk(policy, ops, 2, 2, 'int', nmaxs=nm))
    out.append(Scenario('twin.ucb1.PA.int', history, dict(policy='ucb1', ops='PA', A=3, nmax=1, labels='int', twin=True),
                        twin=True))
    return out
