"""C17 - a rejected call changes nothing.

Relational oracle: two bandits are built identically and share a valid history; one of them additionally receives a
call from the fault catalogue (documented invalid arguments of fit, partial_fit, predict, predict_expectations,
add_arm, remove_arm, warm_start, and shape errors that surface from inside training).  If the library rejects the
call with an exception, the arm lists must be equal and every output of a valid continuation (add_arm, partial_fit,
queries on copies in isolated blocks) must be equal to the twin's that never saw the call.  The data of the valid
history, of the faulty batch (where it is numeric) and of the continuation are symbolic.
"""
import numpy as np
import pandas as pd

from .common import (LABELS, NP_QUICK, Scenario, ask, compare_on_copies, gen_batch, is_linear, needs_contexts, new_mab,
                     reward_kind)
from .c07 import FEATURES

KF_PREDICT = 'KF-C17-rejected-predict-advances-generator'
NAN = float('nan')
INF = float('inf')


def faults(env, mab, arms, ctxd, rk, lp, npol):
    """name -> thunk performing the invalid call"""
    def batch(n=1, d=ctxd, tag='bad'):
        dec, rew, ctx = gen_batch(env, tag, arms, n, rk, d=d, fixed_n=n)
        return np.asarray(dec), rew, ctx

    def fitargs(dec, rew, ctx):
        return (dec, rew) + ((ctx,) if ctx is not None else ())
    F = {}
    dec, rew, ctx = batch()
    F['pfit.decisions_tuple'] = lambda: mab.partial_fit(*fitargs(tuple(dec.tolist()), rew, ctx))
    F['pfit.rewards_set'] = lambda: mab.partial_fit(*fitargs(dec, {1.0}, ctx))
    F['pfit.len_mismatch'] = lambda: mab.partial_fit(*fitargs(np.concatenate([dec, dec]), rew,
                                                              None if ctx is None else np.concatenate([ctx, ctx])))
    F['pfit.reward_nan'] = lambda: mab.partial_fit(*fitargs(dec, np.array([NAN]), ctx))
    F['pfit.reward_inf'] = lambda: mab.partial_fit(*fitargs(dec, np.array([INF]), ctx))
    F['pfit.reward_none'] = lambda: mab.partial_fit(*fitargs(dec, [None], ctx))
    F['fit.reward_nan'] = lambda: mab.fit(*fitargs(dec, np.array([NAN]), ctx))
    if ctxd:
        F['pfit.contexts_missing'] = lambda: mab.partial_fit(dec, rew)
        F['pfit.contexts_1d'] = lambda: mab.partial_fit(dec, rew, np.asarray(ctx).reshape(-1))
        F['pfit.contexts_len'] = lambda: mab.partial_fit(dec, rew, np.concatenate([ctx, ctx]))
        F['pfit.contexts_str'] = lambda: mab.partial_fit(dec, rew, 'abc')
        d2, r2, c2 = batch(1, ctxd + 1, 'wide')
        F['pfit.feature_count'] = lambda: mab.partial_fit(d2, r2, c2)
        d3, r3, c3 = batch(2, ctxd + 1, 'wide2')
        F['pfit.feature_count_2rows'] = lambda: mab.partial_fit(d3, r3, c3)
        qq = env.reals('badq', (1, ctxd + 1))
        F['predict.feature_count'] = lambda: mab.predict(qq)
        F['expectations.feature_count'] = lambda: mab.predict_expectations(qq)
        F['predict.contexts_missing'] = lambda: mab.predict()
        F['predict.contexts_1d'] = lambda: mab.predict(np.zeros(ctxd))
        F['predict.contexts_type'] = lambda: mab.predict_expectations(5)
    else:
        c1 = env.reals('badc', (1, 1))
        F['pfit.contexts_superfluous'] = lambda: mab.partial_fit(dec, rew, c1)
        F['predict.contexts_type'] = lambda: mab.predict(5)
    if lp == 'thompson':
        F['pfit.non_binary'] = lambda: mab.partial_fit(*fitargs(dec, np.array([0.5]), ctx))
        F['add_arm.binarizer_not_callable'] = lambda: mab.add_arm(LABELS['int'][4], 3)
    else:
        F['add_arm.binarizer_non_thompson'] = lambda: mab.add_arm(LABELS['int'][4], lambda a, r: 1)
    F['add_arm.duplicate'] = lambda: mab.add_arm(arms[0])
    F['add_arm.none'] = lambda: mab.add_arm(None)
    F['add_arm.nan'] = lambda: mab.add_arm(np.nan)
    F['add_arm.inf'] = lambda: mab.add_arm(np.inf)
    F['remove_arm.unknown'] = lambda: mab.remove_arm(LABELS['int'][4])
    F['remove_arm.none'] = lambda: mab.remove_arm(None)
    feats = {a: FEATURES[a] for a in arms}
    F['warm_start.not_dict'] = lambda: mab.warm_start([1, 2], 0.5)
    F['warm_start.quantile_int'] = lambda: mab.warm_start(feats, 1)
    F['warm_start.quantile_range'] = lambda: mab.warm_start(feats, 1.5)
    F['warm_start.quantile_none'] = lambda: mab.warm_start(feats, None)
    F['warm_start.arms_mismatch'] = lambda: mab.warm_start({arms[0]: [1.0, 0.0]}, 0.5)
    return F


FAULTS_CF = ['pfit.decisions_tuple', 'pfit.rewards_set', 'pfit.len_mismatch', 'pfit.reward_nan', 'pfit.reward_inf',
             'pfit.reward_none', 'fit.reward_nan', 'pfit.contexts_superfluous', 'predict.contexts_type', 'add_arm.duplicate',
             'add_arm.none', 'add_arm.nan', 'add_arm.inf', 'remove_arm.unknown', 'remove_arm.none', 'warm_start.not_dict',
             'warm_start.quantile_int', 'warm_start.quantile_range', 'warm_start.quantile_none', 'warm_start.arms_mismatch',
             'add_arm.binarizer_non_thompson']
FAULTS_CTX = ['pfit.len_mismatch', 'pfit.reward_nan', 'fit.reward_nan', 'pfit.contexts_missing', 'pfit.contexts_1d',
              'pfit.contexts_len', 'pfit.contexts_str', 'pfit.feature_count', 'pfit.feature_count_2rows',
              'predict.feature_count', 'expectations.feature_count', 'predict.contexts_missing', 'predict.contexts_1d',
              'predict.contexts_type', 'add_arm.duplicate', 'add_arm.nan', 'remove_arm.unknown', 'warm_start.quantile_range']


def rejected(env, lp, npol, fault, prefix='F', cont='AP', d=1, A=2, twin=False, free_dec=False):
    arms = list(LABELS['int'][:A])
    ctxd = d if needs_contexts(lp, npol) else 0
    rk = reward_kind(lp)
    B, hp = new_mab(env, arms, lp, npol)
    T, _ = new_mab(env, arms, lp, npol, seed=hp['seed'], hp=hp)
    cur = list(arms)
    spare = list(LABELS['int'][A:])

    def both(fn):
        fn(B)
        fn(T)
    for k, op in enumerate(prefix):
        if op in 'FP':
            dec, rew, ctx = gen_batch(env, 'h%d' % k, cur, 2, rk, d=ctxd, fixed_n=2 if op == 'F' else 1,
                                      fixed_dec=bool(npol) and not free_dec)
            args = (np.asarray(dec), rew) + ((ctx,) if ctxd else ())
            both(lambda m, op=op, args=args: (m.fit if op == 'F' else m.partial_fit)(*args))
        elif op == 'A':
            a = spare.pop(0)
            both(lambda m, a=a: m.add_arm(a))
            cur.append(a)
    if fault == 'first_fit.too_few_rows':
        # a first fit that passes validation but fails inside training (k-means needs n_clusters rows)
        dec, rew, ctx = gen_batch(env, 'short', cur, 1, rk, d=ctxd, fixed_n=1)
        thunk = lambda: B.fit(np.asarray(dec), rew, ctx)
    elif fault == 'first_partial_fit.too_few_rows':
        # the same through partial_fit, which delegates the first training call to fit
        dec, rew, ctx = gen_batch(env, 'short', cur, 1, rk, d=ctxd, fixed_n=1)
        thunk = lambda: B.partial_fit(np.asarray(dec), rew, ctx)
    elif fault == 'predict.before_fit':
        thunk = lambda: B.predict(env.reals('pq', (1, ctxd)) if ctxd else None)
    else:
        table = faults(env, B, cur, ctxd, rk, lp, npol)
        if fault not in table:
            return
        thunk = table[fault]
    raised = None
    try:
        thunk()
    except Exception as e:      # noqa: the library rejects the call
        from sx.core import Unsupported
        from sx.stubs import ReplayDiverged
        if isinstance(e, (Unsupported, ReplayDiverged)):
            raise
        raised = type(e).__name__
    env.note('raised', raised)
    if raised is None:
        return                  # the call was accepted: the property says nothing about it
    kf = KF_PREDICT if fault in ('predict.feature_count', 'expectations.feature_count') else None
    env.ob('arms_unchanged', list(B.arms) == list(T.arms) == cur)
    env.ob('cold_arms_unchanged', list(B.cold_arms) == list(T.cold_arms))
    if 'F' in prefix:
        compare_on_copies(env, 'after_reject', B, T, ctxd, kf=kf, alt_sync=bool(kf))
    for k, op in enumerate(cont):
        tag = 'c%s%d' % (op, k)
        if op in 'PF':
            dec, rew, ctx = gen_batch(env, tag, cur, 2, rk, d=ctxd, fixed_n=2 if (op == 'F' or 'F' not in prefix) else 1,
                                      fixed_dec=bool(npol) and 'F' not in prefix)
            args = (np.asarray(dec), rew) + ((ctx,) if ctxd else ())
            both(lambda m, op=op, args=args: (m.fit if op == 'F' else m.partial_fit)(*args))
        elif op == 'A':
            a = spare.pop(0)
            both(lambda m, a=a: m.add_arm(a))
            cur.append(a)
        elif op == 'W':
            if npol or len(cur) < 2:
                continue
            both(lambda m: m.warm_start({a: FEATURES[a] for a in cur}, 1.0))
        env.ob('%s.arms' % tag, list(B.arms) == list(T.arms) == cur)
        env.ob('%s.cold_arms' % tag, list(B.cold_arms) == list(T.cold_arms))
        if op in 'PFW':
            compare_on_copies(env, tag, B, T, ctxd, kf=kf, alt_sync=bool(kf))
    if twin:
        env.ob('twin.false', False)


BOUNDS = {
    'quick': dict(faults=sorted(set(FAULTS_CF + FAULTS_CTX + ['first_fit.too_few_rows', 'first_partial_fit.too_few_rows',
                                                            'predict.before_fit'])),
                  position='after fit (2 rows); after fit + partial_fit; before the first fit', continuation='add_arm, '
                  'partial_fit, queries', policies='UCB1, Thompson, LinUCB, LinGreedy; every neighbourhood policy over UCB1 '
                  '(+ Thompson for TreeBandit)'),
    'thorough': dict(position='+ after add_arm', continuation='+ second partial_fit', policies='all'),
}
OUTSIDE = ['invalid constructor arguments (no bandit exists afterwards)', 'decisions naming an unknown arm (accepted by the '
           'library, not a rejected call)', 'floats are reals']
ASSUMPTIONS = ['environment stubs as in DESIGN.md 2.3; the KMeans / tree stubs raise ValueError for too few rows / a different '
               'feature count like scikit-learn does']


def scenarios(tier):
    out = []
    q = tier == 'quick'
    combos = [('ucb1', None), ('thompson', None), ('linucb', None), ('lingreedy', None)]
    if not q:
        combos += [('greedy', None), ('softmax', None), ('popularity', None), ('lints', None)]
    for npol in NP_QUICK:
        combos.append(('ucb1', npol))
        if npol == 'tree' or not q:
            combos.append(('thompson', npol))
        if not q and npol != 'tree':
            combos.append(('linucb', npol))
    for lp, npol in combos:
        ctx = needs_contexts(lp, npol)
        names = FAULTS_CTX if ctx else FAULTS_CF
        if lp == 'thompson':
            names = names + ['pfit.non_binary', 'add_arm.binarizer_not_callable']
        for f in names:
            if f.startswith('warm_start') and npol:
                continue
            if q and npol and f not in ('pfit.feature_count', 'pfit.feature_count_2rows', 'predict.feature_count',
                                        'expectations.feature_count', 'pfit.reward_nan', 'pfit.contexts_missing',
                                        'add_arm.duplicate', 'pfit.non_binary'):
                continue
            big = (npol or '').startswith(('clusters', 'lsh', 'knearest'))
            for prefix in (['F'] if q else ['F', 'FP', 'FA']):
                out.append(Scenario('%s.%s.%s.after%s' % (lp, npol or 'none', f, prefix), rejected,
                                    dict(lp=lp, npol=npol, fault=f, prefix=prefix, cont=('P' if npol else 'AP') if q else 'APP',
                                         free_dec=(npol == 'tree' and f.startswith('pfit.feature_count'))),
                                    weight=100 if big else (60 if lp == 'lingreedy' else 20),
                                    shards=3 if big else (6 if lp == 'lingreedy' and 'feature_count' in f else 1),
                                    max_paths=60000, bounds=dict(lp=lp, np=npol, fault=f, history=prefix)))
        out.append(Scenario('%s.%s.predict.before_fit' % (lp, npol or 'none'), rejected,
                            dict(lp=lp, npol=npol, fault='predict.before_fit', prefix='', cont='FP'), weight=30,
                            shards=3 if npol else 1, max_paths=60000))
        if npol and npol.startswith('clusters'):
            out.append(Scenario('%s.%s.first_fit.too_few_rows' % (lp, npol), rejected,
                                dict(lp=lp, npol=npol, fault='first_fit.too_few_rows', prefix='', cont='PP'), weight=100,
                                shards=4, max_paths=60000))
            out.append(Scenario('%s.%s.first_partial_fit.too_few_rows' % (lp, npol), rejected,
                                dict(lp=lp, npol=npol, fault='first_partial_fit.too_few_rows', prefix='', cont='PP'),
                                weight=100, shards=4, max_paths=60000))
    for lp in (['linucb'] if q else ['linucb', 'lingreedy', 'lints']):
        for f in ('pfit.feature_count', 'pfit.feature_count_2rows'):
            # with one feature numpy broadcasting accepts the wider batch: the rejection needs d >= 2
            out.append(Scenario('%s.none.%s.afterF.d2' % (lp, f), rejected,
                                dict(lp=lp, npol=None, fault=f, prefix='F', cont='AP', d=2), weight=60, shards=2,
                                max_paths=60000, bounds=dict(lp=lp, fault=f, features=2)))
            # the rejected batch may name an arm that is still cold; the continuation warm-starts the cold arms
            out.append(Scenario('%s.none.%s.afterF.d2.warm_start' % (lp, f), rejected,
                                dict(lp=lp, npol=None, fault=f, prefix='F', cont='WP', d=2), weight=80, shards=4,
                                max_paths=60000, bounds=dict(lp=lp, fault=f, features=2, continuation='warm_start, partial_fit')))
    out.append(Scenario('twin.ucb1', rejected, dict(lp='ucb1', npol='radius:cityblock', fault='pfit.feature_count', twin=True),
                        twin=True))
    return out
