"""C19 - copies and pickles of a bandit behave identically to the original.

Relational oracle: three bandits are built identically (same symbolic seed, hyper-parameters, data and history):
the original, a reference that will run the continuation, and an idle reference.  The original is duplicated by
copy.deepcopy or by a pickle round trip (protocols 2-5; symbolic scalars and the environment stubs implement
__reduce__, the mabwiser object graph is pickled by the real pickle module); the continuation (partial_fit, arm changes,
warm_start, refit) runs on the duplicate only.  After every step the duplicate must answer like the reference that ran
the same continuation, and the original like the idle reference (using the copy does not affect the original).
"""
import copy
import pickle

import numpy as np

from .common import (LABELS, NP_QUICK, Scenario, ask, compare_on_copies, gen_batch, needs_contexts, new_mab, reward_kind,
                     trained)
from .c07 import FEATURES


def dup(obj, method):
    if method == 'deepcopy':
        return copy.deepcopy(obj)
    return pickle.loads(pickle.dumps(obj, protocol=int(method[1:])))


def duplicates(env, lp, npol, method, pre, cont, N=2, A=2, d=1, labels='int', twin=False, binarizer=False, direct=False):
    BIN = env.ufunc('bin', 2) if binarizer else None
    BIN2 = env.ufunc('bin2', 2) if binarizer else None
    orig, hp, data, ctxd = trained(env, lp, npol, N, A, d, labels, fixed_dec=bool(npol), binarizer=BIN)
    ref, _, _, _ = trained(env, lp, npol, N, A, d, labels, hp=hp, seed=hp['seed'], data=data)
    idle, _, _, _ = trained(env, lp, npol, N, A, d, labels, hp=hp, seed=hp['seed'], data=data)
    cur = list(LABELS[labels][:A])
    spare = list(LABELS[labels][A:])
    rk = reward_kind(lp)
    group = (orig, ref, idle)
    for k, op in enumerate(pre):
        if op == 'A':
            a = spare.pop(0)
            for b in group:
                b.add_arm(a)
            cur.append(a)
        elif op == 'B':
            a = spare.pop(0)
            for b in group:
                b.add_arm(a, BIN2)
            cur.append(a)
        elif op == 'W' and not npol and len(cur) >= 2:
            for b in group:
                b.warm_start({a: FEATURES[a] for a in cur}, 1.0)
        elif op == 'Q':
            qq = env.reals('preq%d' % k, (1, ctxd)) if ctxd else None
            for b in group:
                ask(b, 'predict', qq)
    cp = dup(orig, method)
    env.ob('arms.equal', list(cp.arms) == list(orig.arms) and cp.arms is not orig.arms)
    compare_on_copies(env, 'fresh_copy', cp, ref, ctxd)
    if direct:
        # the duplicate and the reference answer themselves (not harness-level clones of them): state that lives outside the
        # object graph (caches keyed by object identity, module-level registries) is part of "the original"
        from .common import outputs_equal
        qd = env.reals('qd', (1, ctxd)) if ctxd else None
        for what in ('expectations', 'predict'):
            outputs_equal(env, 'direct.' + what[:4], ask(cp, what, qd), ask(ref, what, qd))
    for k, op in enumerate(cont):
        tag = '%s%d' % (op, k)
        pair = (cp, ref)
        if op in 'PFD':
            # P: partial_fit with one row, D: partial_fit with two rows, F: fit with two rows
            dec, rew, ctx = gen_batch(env, tag.lower(), cur, 1, rk, d=ctxd, fixed_n=1 if op == 'P' else 2)
            args = (np.asarray(dec), rew) + ((ctx,) if ctxd else ())
            for b in pair:
                (b.fit if op == 'F' else b.partial_fit)(*args)
        elif op == 'A':
            a = spare.pop(0)
            for b in pair:
                b.add_arm(a)
            cur.append(a)
        elif op == 'R':
            if len(cur) < 2:
                return
            a = env.choose('rm%d' % k, cur)
            for b in pair:
                b.remove_arm(a)
            cur.remove(a)
        elif op == 'W':
            if npol or len(cur) < 2:
                continue
            for b in pair:
                b.warm_start({a: FEATURES[a] for a in cur}, 1.0)
        compare_on_copies(env, 'copy.' + tag, cp, ref, ctxd)
        env.ob('copy.%s.arms' % tag, list(cp.arms) == list(ref.arms) == cur)
    compare_on_copies(env, 'original_unaffected', orig, idle, ctxd)
    env.ob('original_unaffected.arms', list(orig.arms) == list(idle.arms))
    if twin:
        env.ob('twin.false', False)


METHODS_Q = ['deepcopy', 'p2', 'p5']
METHODS_T = ['deepcopy', 'p2', 'p3', 'p4', 'p5']
BOUNDS = {
    'quick': dict(history_before='fit(2 rows) + one of: nothing, add_arm, add_arm + warm_start, a query',
                  continuations=['P', 'AP', 'R', 'W', 'F'], methods=METHODS_Q, arms='2-4', features=1),
    'thorough': dict(history_before='+ two operations', continuations='+ APR, PF, WP', methods=METHODS_T),
}
OUTSIDE = ['restoring in another process / interpreter', 'the C-level state of the real numpy Generator and of real sklearn '
           'estimators (stubs stand in for them; e.g. a pending half word of the bit generator is invisible here)', 'file I/O']
ASSUMPTIONS = ['environment stubs as in DESIGN.md 2.3, picklable inside one interpreter', 'three identically constructed '
               'bandits behave identically (C04)']


def scenarios(tier):
    out = []
    q = tier == 'quick'
    combos = [(lp, None) for lp in ['greedy', 'ucb1', 'softmax', 'thompson', 'popularity', 'random', 'lingreedy', 'linucb',
                                    'lints']]
    for npol in NP_QUICK:
        for lp in (['ucb1', 'thompson'] if q else ['greedy0', 'ucb1', 'thompson', 'linucb']):
            if npol == 'tree' and lp == 'linucb':
                continue
            combos.append((lp, npol))
    pres = ['', 'A', 'AW', 'Q'] if q else ['', 'A', 'AW', 'Q', 'AQ', 'QA']
    conts = ['P', 'AP', 'R', 'W', 'F'] if q else ['P', 'AP', 'R', 'W', 'F', 'APR', 'PF', 'WP']
    i = 0
    for lp, npol in combos:
        for pre in pres:
            if 'W' in pre and npol:
                continue
            for cont in conts:
                if 'W' in cont and npol:
                    continue
                i += 1
                methods = METHODS_T if not q else [METHODS_Q[i % 3]] + (['deepcopy'] if cont == 'AP' and i % 3 else [])
                big = (npol or '').startswith(('clusters', 'lsh'))
                if q and big and (pre not in ('', 'A') or cont not in ('P', 'AP')):
                    continue
                if q and npol and pre == 'Q' and cont not in ('P',):
                    continue
                for mth in methods:
                    out.append(Scenario('%s.%s.%s.pre%s.cont%s' % (lp, npol or 'none', mth, pre or '0', cont), duplicates,
                                        dict(lp=lp, npol=npol, method=mth, pre=pre, cont=cont),
                                        weight=(60 if npol else 6) * (len(cont) + len(pre) + 1), max_paths=60000,
                                        shards=4 if big else (2 if npol else 1),
                                        bounds=dict(lp=lp, np=npol, method=mth, before='F' + pre, after=cont)))
    # Thompson Sampling with a binarizer that add_arm replaces after a query (per-leaf / per-cluster policies capture it)
    for npol in (['tree', None] if q else ['tree', None, 'radius:cityblock', 'clusters:2', 'lsh:1:1']):
        for mth in (['deepcopy', 'p4'] if q else METHODS_T):
            out.append(Scenario('thompson_bin.%s.%s.preQB.direct' % (npol or 'none', mth), duplicates,
                                dict(lp='thompson', npol=npol, method=mth, pre='QB', cont='', binarizer=True, direct=True),
                                weight=400 if npol else 30, max_paths=60000, shards=4 if npol else 1,
                                bounds=dict(lp='thompson + uninterpreted binarizer', np=npol, method=mth,
                                            before='F, query, add_arm(new binarizer)', after='queries on the copy itself')))
    # an arm added before the copy and trained with a two-row batch after it (its tree is grown by the copy)
    for mth in (['deepcopy'] if q else METHODS_T):
        out.append(Scenario('ucb1.tree.%s.preA.contD' % mth, duplicates,
                            dict(lp='ucb1', npol='tree', method=mth, pre='A', cont='D'), weight=400, max_paths=60000, shards=4,
                            bounds=dict(lp='ucb1', np='tree', method=mth, before='FA', after='partial_fit with two rows')))
    out.append(Scenario('twin.ucb1', duplicates, dict(lp='ucb1', npol=None, method='p4', pre='A', cont='P', twin=True),
                        twin=True))
    return out
