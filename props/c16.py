"""C16 - Simulator bookkeeping is a faithful account of the data.

Reference-model oracle on the real Simulator.run() with symbolic rewards (so count / sum / min / max / mean are terms):
the test indices and their complement partition the rows (the last rows when ordered); one prediction per test row;
the per-arm statistics reported for total, train and test data equal an independent recomputation from the raw rows,
train + test counts and sums give the totals; the default evaluation credits the observed reward where the prediction
equals the logged decision and otherwise the predicted arm's training statistic, so evaluated counts sum to the number
of test rows and the min, mean and max analyses are ordered.
"""
import copy
import logging
import warnings

import numpy as np

from .common import LABELS, is_nan, pyval
from .common import Scenario
from .c15 import Sim, build
from .common import MAB, LP

logging.disable(logging.CRITICAL)
warnings.filterwarnings('ignore')


def stats_ref(env, vals):
    n = len(vals)
    if n == 0:
        return dict(count=0, sum=0, min=0, max=0, mean=0)
    s = 0
    for v in vals:
        s = s + v
    return dict(count=n, sum=s, min=env.min(vals), max=env.max(vals), mean=s / n)


def check_stats(env, tag, got, arms, dec, rew, rows):
    for a in arms:
        vals = [rew[i] for i in rows if dec[i] == a]
        want = stats_ref(env, vals)
        g = got[a]
        env.ob('%s[%s].count' % (tag, a), g['count'] == want['count'])
        for k in ('sum', 'min', 'max', 'mean'):
            env.ob('%s[%s].%s' % (tag, a, k), env.eq(g[k], want[k]))


def books(env, spec, N, test_size, batch, ordered=True, A=2, d=1, twin=False, absent=False, sim_seed=11):
    arms = list(LABELS['int'][:A + (1 if absent else 0)])
    used = arms[:A]
    dec = np.asarray([env.choose('d_%d' % i, used) for i in range(N)])
    rew = env.reals('r', (N,))
    ctx = env.reals('x', (N, d))
    mab = build(env, spec, arms, 0)
    contextual = mab.is_contextual
    sim = Sim()([('b', mab)], dec, rew, ctx if contextual else None, test_size=test_size, is_ordered=ordered,
                batch_size=batch, is_quick=True, seed=sim_seed)
    sim.run()
    test = list(sim.test_indices)
    train = [i for i in range(N) if i not in set(test)]
    env.ob('partition', sorted(test + train) == list(range(N)) and len(set(test)) == len(test))
    n_train = int(N * (1 - test_size))
    if ordered:
        env.ob('ordered.last_rows', test == list(range(n_train, N)))
    env.ob('split.sizes', len(train) == n_train or not ordered)
    preds = list(sim.bandit_to_predictions['b'])
    env.ob('one_prediction_per_test_row', len(preds) == len(test))
    env.ob('predictions.members', all(pyval(p) in arms for p in preds))
    check_stats(env, 'total', sim.arm_to_stats_total, arms, dec, rew, range(N))
    check_stats(env, 'train', sim.arm_to_stats_train, arms, dec, rew, train)
    check_stats(env, 'test', sim.arm_to_stats_test, arms, dec, rew, test)
    for a in arms:
        t, tr, te = sim.arm_to_stats_total[a], sim.arm_to_stats_train[a], sim.arm_to_stats_test[a]
        env.ob('additive[%s].count' % a, tr['count'] + te['count'] == t['count'])
        env.ob('additive[%s].sum' % a, env.eq(tr['sum'] + te['sum'], t['sum']))
    if len(preds) != len(test):
        return
    res = {}
    for stat, store in (('min', sim.bandit_to_arm_to_stats_min), ('mean', sim.bandit_to_arm_to_stats_avg),
                        ('max', sim.bandit_to_arm_to_stats_max)):
        got = store['b']
        if batch:
            got = got.get('total', got)
        if not all(a in got for a in arms):
            env.ob('evaluation.%s.keys' % stat, False)
            return
        # credited values, recomputed from the raw rows
        credit = {a: [] for a in arms}
        for j, i in enumerate(test):
            p = pyval(preds[j])
            if p == dec[i]:
                credit[p].append(rew[i])
            else:
                tv = [rew[k] for k in train if dec[k] == p] if not batch else None
                if batch:
                    credit = None
                    break
                credit[p].append(stats_ref(env, tv)[stat])
        total = 0
        cnt = 0
        for a in arms:
            cnt += got[a]['count']
            if got[a]['count']:
                total = total + got[a]['sum']
            if credit is not None:
                env.ob('evaluation.%s[%s].count' % (stat, a), got[a]['count'] == len(credit[a]))
                if credit[a] and got[a]['count'] == len(credit[a]):
                    s = 0
                    for v in credit[a]:
                        s = s + v
                    env.ob('evaluation.%s[%s].sum' % (stat, a), env.eq(got[a]['sum'], s))
        env.ob('evaluation.%s.counts_sum_to_test_rows' % stat, cnt == len(test))
        res[stat] = total
    if len(res) == 3:
        env.ob('evaluation.ordered', env.and_(env.le(res['min'], res['mean']), env.le(res['mean'], res['max'])))
    if twin:
        env.ob('twin.false', False)


def split_fp(env, N, batch=0, twin=False):
    """the ordered train/test split with test_size an IEEE double (not a real): the sizes the Simulator derives from
    N * (1 - test_size), ceil(N * test_size), ... are subject to rounding, e.g. 20 * (1 - 0.8) = 3.9999999999999996.
    Data are concrete (rewards 1..N, decisions alternating); every double in (0, 1) is covered for the given N."""
    arms = [1, 2]
    dec = np.asarray([arms[i % 2] for i in range(N)])
    rew = np.asarray([float(i + 1) for i in range(N)])
    ts = env.float64('test_size', 0.0, 1.0)
    # nothing but test_size is symbolic (UCB1 with alpha = 1 draws no random numbers): the path conditions are pure QF_FP
    mab = MAB()(list(arms), LP().UCB1(1.0), seed=3)
    try:
        sim = Sim()([('b', mab)], dec, rew, None, test_size=ts, is_ordered=True, batch_size=batch, is_quick=True, seed=11)
        sim.run()
    except (ZeroDivisionError, ValueError) as e:
        # a test_size so small / large that the train or the test set is empty makes the Simulator itself raise (e.g.
        # ZeroDivisionError for test_size = 1e-22): no report is produced, which is outside this property
        env.note('simulator_raised', '%s: %s' % (type(e).__name__, e))
        return
    test = list(sim.test_indices)
    train = [i for i in range(N) if i not in set(test)]
    env.ob('fp.partition', sorted(test + train) == list(range(N)) and len(set(test)) == len(test))
    env.ob('fp.ordered.last_rows', test == list(range(N - len(test), N)))
    preds = list(sim.bandit_to_predictions['b'])
    env.ob('fp.one_prediction_per_test_row', len(preds) == len(test))
    for a in arms:
        t, tr, te = sim.arm_to_stats_total[a], sim.arm_to_stats_train[a], sim.arm_to_stats_test[a]
        env.ob('fp.additive[%s].count' % a, tr['count'] + te['count'] == t['count'])
        env.ob('fp.additive[%s].sum' % a, abs(tr['sum'] + te['sum'] - t['sum']) < 1e-9)
        env.ob('fp.test[%s].count' % a, te['count'] == sum(1 for i in test if dec[i] == a))
        env.ob('fp.train[%s].count' % a, tr['count'] == sum(1 for i in train if dec[i] == a))
        env.ob('fp.test[%s].sum' % a, abs(te['sum'] - sum(rew[i] for i in test if dec[i] == a)) < 1e-9)
    cnt = 0
    got = sim.bandit_to_arm_to_stats_avg['b']
    if batch:
        got = got.get('total', got)
    for a in arms:
        cnt += got[a]['count'] if a in got else 0
    env.ob('fp.evaluated_counts_sum_to_test_rows', cnt == len(test))
    if twin:
        env.ob('twin.false', False)


def books_nn(env, N, test_size, batch, A=2, twin=False):
    """online run of a Radius bandit with neighbourhood statistics (is_quick=False): the per-batch default evaluation credits
    the observed reward, else the predicted arm's statistic in the row's own neighbourhood, else its training statistic"""
    arms = list(LABELS['int'][:A])
    dec = np.asarray([arms[i % A] for i in range(N)])           # alternating decisions: the statistics are the subject
    rew = env.reals('r', (N,))
    ctx = env.reals('x', (N, 1))
    mab = build(env, ('ucb1', 'radius:cityblock'), arms, 0)
    radius = mab._imp.radius
    sim = Sim()([('b', mab)], dec, rew, ctx, test_size=test_size, is_ordered=True, batch_size=batch, is_quick=False, seed=11)
    sim.run()
    test = list(sim.test_indices)
    train = [i for i in range(N) if i not in set(test)]
    preds = list(sim.bandit_to_predictions['b'])
    env.ob('one_prediction_per_test_row', len(preds) == len(test))
    if len(preds) != len(test):
        return
    seen = list(train)
    nb = 0
    for start in range(0, len(test), batch):
        rows = test[start:start + batch]
        for stat, store in (('min', sim.bandit_to_arm_to_stats_min), ('mean', sim.bandit_to_arm_to_stats_avg),
                            ('max', sim.bandit_to_arm_to_stats_max)):
            got = store['b'].get(nb)
            if got is None:
                env.ob('batch%d.%s.present' % (nb, stat), False)
                continue
            credit = {a: [] for a in arms}
            for off, i in enumerate(rows):
                p = pyval(preds[start + off])
                if p == dec[i]:
                    credit[p].append(rew[i])
                    continue
                nbrs = [k for k in seen if env.decide(env.abs(ctx[k][0] - ctx[i][0]) <= radius)]
                vals = [rew[k] for k in nbrs if dec[k] == p]
                if nbrs and vals:
                    credit[p].append(stats_ref(env, vals)[stat])
                else:
                    credit[p].append(stats_ref(env, [rew[k] for k in train if dec[k] == p])[stat])
            for a in arms:
                env.ob('batch%d.%s[%s].count' % (nb, stat, a), got[a]['count'] == len(credit[a]))
                if credit[a] and got[a]['count'] == len(credit[a]):
                    tot = 0
                    for v in credit[a]:
                        tot = tot + v
                    env.ob('batch%d.%s[%s].sum' % (nb, stat, a), env.eq(got[a]['sum'], tot))
        seen += rows
        nb += 1
    if twin:
        env.ob('twin.false', False)


BOUNDS = {
    'quick': dict(rows=4, test_size='0.5 and 0.3', split='ordered (+ one shuffled split with test rows in descending order)', batch_size='0, 1, 2', arms='2 (+1 arm absent from the data)',
                  bandits='EpsilonGreedy(0), UCB1 (context-free), LinUCB'),
    'thorough': dict(rows='5-6', split='ordered and shuffled (sklearn train_test_split, concrete seed)',
                     batch_size='including sizes that do not divide the test set'),
}
OUTSIDE = ['std (numerically a derived quantity of the same rows)', 'neighbourhood statistics other than for Radius / UCB1 online with batch size 1', 'custom evaluators', 'plots, logs', 'the float test_size '
           'arithmetic int(N * (1 - test_size)) is evaluated concretely for the listed sizes']
ASSUMPTIONS = ['floats are reals', 'environment stubs as in DESIGN.md 2.3']


def scenarios(tier):
    out = []
    q = tier == 'quick'
    N = 4 if q else 5
    for spec in [('greedy0', None), ('ucb1', None), ('linucb', None)]:
        for batch in ([0, 1, 2] if q else [0, 1, 2, 3]):
            for ts in ([0.5] if q else [0.5, 0.3]):
                for absent in (False, True):
                    if q and absent and (batch or spec[0] != 'ucb1'):
                        continue
                    out.append(Scenario('%s.batch%d.ts%d%s' % (spec[0], batch, int(ts * 100), '.absent_arm' if absent else ''),
                                        books, dict(spec=spec, N=N, test_size=ts, batch=batch, absent=absent), weight=300,
                                        shards=6, max_paths=100000, setup=dict(no_tv=True),
                                        bounds=dict(bandit=spec[0], rows=N, test_size=ts, batch_size=batch)))
        if not q:
            out.append(Scenario('%s.shuffled' % spec[0], books, dict(spec=spec, N=5, test_size=0.4, batch=0, ordered=False, sim_seed=1),
                                weight=300, shards=6, max_paths=100000, setup=dict(no_tv=True)))
    # shuffled split whose test rows come out in non-ascending order (seed 1 -> rows [3, 2])
    out.append(Scenario('linucb.batch0.shuffled', books, dict(spec=('linucb', None), N=4, test_size=0.5, batch=0, ordered=False,
                                                          sim_seed=1), weight=300, shards=4, max_paths=100000,
                        setup=dict(no_tv=True), bounds=dict(split='shuffled, test rows [3, 2]')))
    out.append(Scenario('ucb1.batch0.ts30', books, dict(spec=('ucb1', None), N=4, test_size=0.3, batch=0), weight=300, shards=4,
                        max_paths=100000, setup=dict(no_tv=True)))
    out.append(Scenario('radius.online.neighbourhood_stats', books_nn, dict(N=4, test_size=0.5, batch=1), weight=600, shards=8,
                        max_paths=100000, setup=dict(no_tv=True),
                        bounds=dict(bandit='UCB1 + Radius(cityblock)', rows=4, batch_size=1, is_quick=False)))
    # test_size as an IEEE double: every double in (0, 1), per row count
    for n in (list(range(2, 13)) + [15, 20] if q else list(range(2, 41)) + [50, 64, 90, 100]):
        out.append(Scenario('split.float64.N%d' % n, split_fp, dict(N=n, batch=0), weight=20 + n, max_paths=5000,
                            setup=dict(no_tv=True), bounds=dict(rows=n, test_size='every float64 in (0,1)', batch_size=0)))
    out.append(Scenario('split.float64.N10.batch3', split_fp, dict(N=10, batch=3), weight=40, max_paths=5000,
                        setup=dict(no_tv=True), bounds=dict(rows=10, test_size='every float64 in (0,1)', batch_size=3)))
    out.append(Scenario('twin.split_fp', split_fp, dict(N=5, twin=True), setup=dict(no_tv=True), twin=True))
    out.append(Scenario('twin.books', books, dict(spec=('ucb1', None), N=4, test_size=0.5, batch=0, twin=True),
                        setup=dict(no_tv=True), twin=True))
    return out
