"""C11 - LSHNearest neighbourhoods are the sign-random-projection collisions.

Reference-model oracle: the hyperplanes are the standard_normal draws recorded by the symbolic generator at fit time
(arbitrary reals); row j is in the neighbourhood of query q iff for some table every bit agrees,
(x_j . p > 0) == (q . p > 0) for all hyperplanes p of that table.  The expectations must be those of a fresh bandit
of the learning policy fitted through the public API on exactly that set (NaN for every arm if it is empty).
Corollaries: a stored row, and a positive multiple of it, always finds itself; rows added by partial_fit are hashed
with the same hyperplanes and found under their position in the accumulated history.
"""
import copy

import numpy as np

from .common import LABELS, Scenario, ask, gen_batch, is_nan, new_mab, pyval, reward_kind
from .c03 import fresh_lp, results_equal


def wide_hash(env, B, twin=False):
    """the real _LSHNearest.get_context_hash on two rows and B hyperplanes: the projections are symbolic reals (contexts =
    arbitrary reals, plane = identity, so that projection i is context entry i); the bits stay If-terms, no forks.  The hash
    must be the base-2 value of the sign pattern, hence two rows collide iff all B signs agree - for every B, not only the
    one or two bits of the neighbourhood scenarios."""
    import numpy as np
    import z3
    from sx.core import SB, lift
    from .common import M
    cls = M()['approximate']._LSHNearest
    # numpy's object-dtype comparison forks on every sign: only the lowest, the middle and the highest projection of each
    # row are symbolic, the others are the constants +1 / -1 (row 0: all set, row 1: alternating)
    free = sorted({0, B // 2, B - 1})
    sym = env.reals('c', (2, len(free)))
    c = np.empty((2, B), dtype=object if env.sym else float)
    for r in range(2):
        for i in range(B):
            c[r, i] = sym[r][free.index(i)] if i in free else (1.0 if (r == 0 or i % 2 == 0) else -1.0)
    plane = np.identity(B, dtype=int).astype(object) if env.sym else np.identity(B)
    h = cls.get_context_hash(c, plane)
    env.ob('wide.shape', len(h) == 2)
    bits = [[c[r][i] > 0 for i in range(B)] for r in range(2)]
    for r in range(2):
        want = 0
        for i in range(B):
            want = want + env.ite(bits[r][i], 2 ** i, 0)
        env.ob('wide.value.row%d' % r, env.eq(h[r], want))
    agree = env.and_(*[env.or_(env.and_(bits[0][i], bits[1][i]), env.and_(env.not_(bits[0][i]), env.not_(bits[1][i])))
                       for i in range(B)])
    same = env.eq(h[0], h[1])
    env.ob('wide.collide_iff_all_signs_agree', env.and_(env.implies(agree, same), env.implies(same, agree)))
    if twin:
        env.ob('twin.false', False)


def lsh(env, lp, B, T, N, partial, d, query='free', A=2, n_jobs=1, twin=False):
    arms = list(LABELS['int'][:A])
    n = N + partial
    dec, rew, ctx = gen_batch(env, 'h', arms, n, reward_kind(lp), d=d, fixed_n=n)
    dec = np.asarray(dec)
    mab, hp = new_mab(env, arms, lp, 'lsh:%d:%d' % (B, T), n_jobs=n_jobs)
    n0 = len(env.log)
    mab.fit(dec[:N], rew[:N], ctx[:N])
    planes_calls = [c for c in env.log[n0:] if c[0] == 'standard_normal']
    env.ob('planes.drawn_at_fit', len(planes_calls) == T)
    n1 = len(env.log)
    if partial:
        mab.partial_fit(dec[N:], rew[N:], ctx[N:])
    env.ob('planes.fixed_after_fit', not [c for c in env.log[n1:] if c[0] == 'standard_normal'])
    if len(planes_calls) != T:
        return
    planes = []
    for c in planes_calls:
        flat = list(np.asarray(c[2], dtype=object).reshape(-1)) if not isinstance(c[2], list) else c[2]
        planes.append([[flat[i * B + b] for b in range(B)] for i in range(d)])
    if query == 'free':
        q = env.reals('q', (1, d))
        target = None
    else:
        target = env.choose('stored_row', list(range(n)))
        if query == 'stored':
            q = ctx[target:target + 1].copy()
        else:
            c_ = env.real('scale', 0, lo_strict=True)
            q = ctx[target:target + 1] * c_

    def bit(x, t, b):
        v = 0
        for i in range(d):
            v = v + x[i] * planes[t][i][b]
        return v > 0

    members = []
    for j in range(n):
        coll = False
        for t in range(T):
            same = True
            for b in range(B):
                if env.decide(bit(ctx[j], t, b)) != env.decide(bit(q[0], t, b)):
                    same = False
                    break
            if same:
                coll = True
                break
        if coll:
            members.append(j)
    if target is not None:
        env.ob('finds_itself', target in members)
    for what in ('expectations', 'predict'):
        bandit = copy.deepcopy(mab)
        k0 = len(env.log)
        out = ask(bandit, what, q)
        calls = env.log[k0:]
        seeds = calls[0][4] if calls and calls[0][0] == 'randint' else None
        env.ob('%s.seeds' % what, seeds is not None and len(seeds) == 1)
        if seeds is None:
            return
        if not members:
            if what == 'expectations':
                env.ob('empty.nan', isinstance(out, dict) and [pyval(k) for k in out] == arms and
                       all(is_nan(v) for v in out.values()))
            else:
                ch = [c for c in calls if c[0] == 'choice']
                env.ob('empty.choice', len(ch) == 1 and arms[int(ch[0][3][0])] == pyval(out))
            continue
        want = fresh_lp(env, hp, arms, seeds[0], dec, rew, ctx, members, what, q)
        env.ob('%s.collision_set' % what, results_equal(env, out, want))
        if what == 'expectations':
            env.observe('exp', [out[a] for a in out])
    if twin:
        env.ob('twin.false', False)


BOUNDS = {
    'quick': dict(stored_rows='2 + 1 by partial_fit', features='1-2', tables='1-2', bits='1-2', query='free symbolic row, '
                  'a stored row, a positive multiple of a stored row', hashing_n_jobs='1 and 2',
                  policies=['EpsilonGreedy(0)', 'UCB1']),
    'thorough': dict(stored_rows='3 + 1', features='1-2', tables='<= 2', bits='<= 2', policies='+ Thompson, LinUCB'),
}
OUTSIDE = ['floats are reals: a projection that is exactly zero is a real-number zero', 'neighbourhood scenarios use n_dimensions <= 2; the hash '
           'function itself (sum of bit * 2**i) is covered separately for n_dimensions up to 40 (quick) / 53 (thorough); '
           'beyond 53 bits the float64 accumulator is no longer exact, which a real-number model cannot see']
ASSUMPTIONS = ['hyperplanes = arbitrary reals (uninterpreted standard_normal draws)', 'joblib stub: hashing tasks are static '
               'functions and run in the caller']


def scenarios(tier):
    out = []
    q = tier == 'quick'
    cfgs = [(1, 1, 1), (2, 1, 1), (1, 2, 1), (1, 1, 2)] if q else [(1, 1, 1), (2, 1, 1), (1, 2, 1), (1, 1, 2), (2, 2, 1),
                                                                  (2, 1, 2), (1, 2, 2)]
    for lp in (['greedy0', 'ucb1'] if q else ['greedy0', 'ucb1', 'thompson', 'linucb']):
        for B, T, d in cfgs:
            for query in ('free', 'stored', 'scaled'):
                if query == 'scaled' and (d > 1 or B > 1 or T > 1):
                    continue
                if q and lp == 'ucb1' and (B, T, d) != (1, 1, 1) and query != 'free':
                    continue
                N = 2 if q else 3
                out.append(Scenario('%s.B%dT%dd%d.%s' % (lp, B, T, d, query), lsh,
                                    dict(lp=lp, B=B, T=T, N=N, partial=1, d=d, query=query),
                                    weight=2 ** (B * T * (N + 2)) * 4, max_paths=100000, shards=4 if B * T > 1 else 2,
                                    bounds=dict(lp=lp, bits=B, tables=T, d=d, rows=N + 1, query=query)))
    for B in ([3, 8, 31, 32, 33, 40] if q else [3, 8, 16, 31, 32, 33, 40, 48, 53]):
        out.append(Scenario('hash.B%d' % B, wide_hash, dict(B=B), weight=10 + B, max_paths=400, setup=dict(no_tv=True),
                            bounds=dict(n_dimensions=B, rows=2, projections='lowest, middle and highest projection of each row '
                                        'arbitrary reals, the others fixed to +1 / -1')))
    out.append(Scenario('ucb1.B1T1d1.free.njobs2', lsh, dict(lp='ucb1', B=1, T=1, N=2, partial=1, d=1, n_jobs=2),
                        setup=dict(par_other='proc'), weight=50, shards=2))
    # a partial_fit batch of two rows hashed by two jobs (the per-hash insert tasks must carry the history offset)
    out.append(Scenario('ucb1.B1T1d1.free.njobs2.partial2', lsh, dict(lp='ucb1', B=1, T=1, N=1, partial=2, d=1, n_jobs=2),
                        setup=dict(par_other='proc'), weight=80, shards=2,
                        bounds=dict(lp='ucb1', bits=1, tables=1, rows='1 + 2 by partial_fit', n_jobs=2)))
    out.append(Scenario('twin.ucb1', lsh, dict(lp='ucb1', B=1, T=1, N=1, partial=1, d=1, twin=True), twin=True))
    return out
