"""helpers shared by the property harnesses"""
import numpy as np

from sx.install import load
from sx.runner import Scenario   # noqa: F401  (re-exported)

EPS = float(np.finfo(float).eps)

LABELS = {
    'int': [1, 2, 3, 4, 5],
    'str': ['a', 'b', 'c', 'd', 'e'],
    'float': [0.5, 1.5, 2.5, 3.5, 4.5],
}


def M():
    """the mabwiser modules from the repository's working tree"""
    return load()


def MAB():
    return M()['mab'].MAB


def LP():
    return M()['mab'].LearningPolicy


def NP():
    return M()['mab'].NeighborhoodPolicy


def darr(decisions, kind):
    """decision vector with the dtype numpy would infer from a python list of labels"""
    return np.asarray(list(decisions))


class Ref:
    """reference model of a context-free bandit's history: per arm the rewards observed since
    max(last fit, last (re-)addition of that label); N = all observations since the last fit"""

    def __init__(self, arms):
        self.arms = list(arms)
        self.rew = {a: [] for a in self.arms}
        self.N = 0

    def fit(self, dec, rew):
        self.rew = {a: [] for a in self.arms}
        self.N = 0
        self.partial(dec, rew)

    def partial(self, dec, rew):
        for d, r in zip(dec, rew):
            self.rew[d].append(r)
        self.N += len(dec)

    def add(self, a):
        self.arms.append(a)
        self.rew[a] = []

    def remove(self, a):
        self.arms.remove(a)
        del self.rew[a]

    def count(self, a):
        return len(self.rew[a])

    def total(self, a):
        s = 0
        for r in self.rew[a]:
            s = s + r
        return s

    def mean(self, a):
        n = len(self.rew[a])
        return self.total(a) / n if n else 0


def pyval(x):
    """numpy scalar label -> python label"""
    if isinstance(x, np.generic):
        return x.item()
    return x


def gen_batch(env, tag, arms, nmax, reward='real', nmin=1, d=0, fixed_n=None, ctx_name=None):
    """a training batch whose size, row-to-arm assignment and values are chosen by the solver"""
    n = fixed_n if fixed_n is not None else env.choose('n_%s' % tag, list(range(nmin, nmax + 1)))
    dec = [env.choose('d_%s_%d' % (tag, i), arms) for i in range(n)]
    if reward == 'binary':
        rew = env.binaries('r_%s' % tag, n)
    elif reward == 'nonneg':
        rew = env.reals('r_%s' % tag, (n,), lo=0)
    else:
        rew = env.reals('r_%s' % tag, (n,))
    ctx = env.reals(ctx_name or ('x_%s' % tag), (n, d)) if d else None
    return dec, rew, ctx
