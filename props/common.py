"""helpers shared by the property harnesses"""
import numpy as np

from sx.install import load
from sx.runner import Scenario   # noqa: F401  (re-exported)

EPS = float(np.finfo(float).eps)

LABELS = {
    'int': [1, 2, 3, 4, 5],
    'str': ['a', 'b', 'c', 'd', 'e'],
    'float': [0.5, 1.5, 2.5, 3.5, 4.5],
    'perm': [30, 10, 20, 50, 40],      # integer labels whose sort order differs from the list order
    'wide': ['a', 'bb', 'ccc', 'dddd', 'eeeee'],   # strings of growing width (numpy picks the dtype per batch: <U1, <U3, ...)
    'mixed': [1, 2, 2.5, 3.5, 4],      # ints first, then floats: a batch of the first labels only is an integer array
}


def M():
    """the mabwiser modules from the repository's working tree"""
    return load()


def MAB():
    return M()['mab'].MAB


def LP():
    return M()['mab'].LearningPolicy


def NP():
    return M()['mab'].NeighborhoodPolicy


def darr(decisions, kind):
    """decision vector with the dtype numpy would infer from a python list of labels"""
    return np.asarray(list(decisions))


class Ref:
    """reference model of a context-free bandit's history: per arm the rewards observed since
    max(last fit, last (re-)addition of that label); N = all observations since the last fit"""

    def __init__(self, arms):
        self.arms = list(arms)
        self.rew = {a: [] for a in self.arms}
        self.N = 0

    def fit(self, dec, rew):
        self.rew = {a: [] for a in self.arms}
        self.N = 0
        self.partial(dec, rew)

    def partial(self, dec, rew):
        for d, r in zip(dec, rew):
            self.rew[d].append(r)
        self.N += len(dec)

    def add(self, a):
        self.arms.append(a)
        self.rew[a] = []

    def remove(self, a):
        self.arms.remove(a)
        del self.rew[a]

    def count(self, a):
        return len(self.rew[a])

    def total(self, a):
        s = 0
        for r in self.rew[a]:
            s = s + r
        return s

    def mean(self, a):
        n = len(self.rew[a])
        return self.total(a) / n if n else 0


def pyval(x):
    """numpy scalar label -> python label"""
    if isinstance(x, np.generic):
        return x.item()
    return x


def gen_batch(env, tag, arms, nmax, reward='real', nmin=1, d=0, fixed_n=None, ctx_name=None, fixed_dec=False,
              floatable=False):
    """a training batch whose size, row-to-arm assignment and values are chosen by the solver
    (fixed_dec: rows are assigned to the arms round-robin instead)"""
    n = fixed_n if fixed_n is not None else env.choose('n_%s' % tag, list(range(nmin, nmax + 1)))
    if fixed_dec:
        dec = [arms[i % len(arms)] for i in range(n)]
    else:
        dec = [env.choose('d_%s_%d' % (tag, i), arms) for i in range(n)]
    if reward == 'binary':
        rew = env.binaries('r_%s' % tag, n)
    elif reward == 'nonneg':
        rew = env.reals('r_%s' % tag, (n,), lo=0)
    else:
        rew = env.reals('r_%s' % tag, (n,))
    ctx = env.reals(ctx_name or ('x_%s' % tag), (n, d), floatable=floatable) if d else None
    return dec, rew, ctx


# ------------------------------------------------------------------------------------------------
# policy factories with symbolic hyper-parameters

CF_POLICIES = ['greedy', 'ucb1', 'softmax', 'popularity', 'thompson', 'random']
LIN_POLICIES = ['lingreedy', 'linucb', 'lints']


def make_lp(env, name, tag='', scale=False, binarizer=None):
    """(LearningPolicy tuple, hyper-parameter dict); names ending in 0 / 1 fix epsilon"""
    lp = LP()
    t = tag
    if name == 'greedy0':
        return lp.EpsilonGreedy(0), dict(epsilon=0)
    if name == 'greedy1':
        return lp.EpsilonGreedy(1), dict(epsilon=1)
    if name == 'greedy':
        e = env.real('epsilon' + t, 0, 1)
        return lp.EpsilonGreedy(e), dict(epsilon=e)
    if name == 'ucb1':
        a = env.real('alpha' + t, 0)
        return lp.UCB1(a), dict(alpha=a)
    if name == 'softmax':
        tau = env.real('tau' + t, 0, lo_strict=True)
        return lp.Softmax(tau), dict(tau=tau)
    if name == 'popularity':
        return lp.Popularity(), {}
    if name == 'thompson':
        return lp.ThompsonSampling(binarizer), {}
    if name == 'random':
        return lp.Random(), {}
    if name == 'lingreedy0':
        lam = env.real('l2' + t, 0, lo_strict=True)
        return lp.LinGreedy(0, lam, scale), dict(epsilon=0, l2=lam)
    if name == 'lingreedy':
        e = env.real('epsilon' + t, 0, 1)
        lam = env.real('l2' + t, 0, lo_strict=True)
        return lp.LinGreedy(e, lam, scale), dict(epsilon=e, l2=lam)
    if name == 'linucb':
        a = env.real('alpha' + t, 0)
        lam = env.real('l2' + t, 0, lo_strict=True)
        return lp.LinUCB(a, lam, scale), dict(alpha=a, l2=lam)
    if name == 'lints':
        a = env.real('alpha' + t, 0, lo_strict=True)
        lam = env.real('l2' + t, 0, lo_strict=True)
        return lp.LinTS(a, lam, scale), dict(alpha=a, l2=lam)
    raise ValueError(name)


def reward_kind(lp_name):
    if lp_name.startswith('thompson'):
        return 'binary'
    if lp_name == 'popularity':
        return 'nonneg'
    return 'real'


def is_linear(lp_name):
    return lp_name.startswith('lin')


def make_np(env, name, tag='', narms=2):
    """NeighborhoodPolicy tuple from a spec string: radius:<metric>, knearest:<k>:<metric>, lsh:<bits>:<tables>,
    clusters:<k>[:mini], tree"""
    npol = NP()
    if name is None or name == 'none':
        return None, {}
    parts = name.split(':')
    kind = parts[0]
    if kind == 'radius':
        metric = parts[1] if len(parts) > 1 else 'cityblock'
        if metric in ('euclidean', 'seuclidean'):
            rho = env.real('rho' + tag, 0, lo_strict=True)
            r = env.sqrt_cmp(rho)
            env.assume(r > 0)
        else:
            r = env.real('radius' + tag, 0, lo_strict=True)
        return npol.Radius(r, metric), dict(radius=r, metric=metric)
    if kind == 'knearest':
        k = int(parts[1]) if len(parts) > 1 else 1
        metric = parts[2] if len(parts) > 2 else 'cityblock'
        return npol.KNearest(k, metric), dict(k=k, metric=metric)
    if kind == 'lsh':
        b = int(parts[1]) if len(parts) > 1 else 1
        t = int(parts[2]) if len(parts) > 2 else 1
        return npol.LSHNearest(b, t), dict(bits=b, tables=t)
    if kind == 'clusters':
        k = int(parts[1]) if len(parts) > 1 else 2
        mini = len(parts) > 2 and parts[2] == 'mini'
        return npol.Clusters(k, mini), dict(k=k, mini=mini)
    if kind == 'tree':
        return npol.TreeBandit(), {}
    raise ValueError(name)


def needs_contexts(lp_name, np_name):
    return is_linear(lp_name) or (np_name not in (None, 'none'))


def new_mab(env, arms, lp_name, np_name=None, seed=None, tag='', n_jobs=1, scale=False, binarizer=None, hp=None,
            same_list=False):
    """a bandit through the public constructor; hp lets two bandits share the same symbolic hyper-parameters"""
    if hp is None:
        lpol, h1 = make_lp(env, lp_name, tag, scale=scale, binarizer=binarizer)
        npol, h2 = make_np(env, np_name, tag, narms=len(arms))
        hp = dict(lp=lpol, np=npol, h=dict(h1, **h2))
    if seed is None:
        seed = env.integer('seed' + tag, 0, 2 ** 31 - 1)
        hp['seed'] = seed
    mab = MAB()(arms if same_list else list(arms), hp['lp'], hp['np'], seed=seed, n_jobs=n_jobs)
    return mab, hp


def same_value(env, a, b):
    """equality of two outputs of the same kind (number, NaN, arm label)"""
    if isinstance(a, (str, np.str_)) or isinstance(b, (str, np.str_)):
        return str(a) == str(b)
    return env.eq(a, b)


def outputs_equal(env, tag, o1, o2, kf=None, alt=None):
    """obligations: two results of predict / predict_expectations are equal term by term.
    kf/alt: id of a listed known finding and the output of the bug-compatible reference (same structure)"""
    if isinstance(o1, list) != isinstance(o2, list):
        env.ob(tag + '.shape', False)
        return
    if isinstance(o1, list):
        env.ob(tag + '.len', len(o1) == len(o2))
        for i, (x, y) in enumerate(zip(o1, o2)):
            outputs_equal(env, '%s.row%d' % (tag, i), x, y, kf, alt[i] if isinstance(alt, list) and i < len(alt) else None)
        return
    if isinstance(o1, dict) != isinstance(o2, dict):
        env.ob(tag + '.kind', False)
        return
    if isinstance(o1, dict):
        env.ob(tag + '.keys', [pyval(k) for k in o1.keys()] == [pyval(k) for k in o2.keys()])
        for k in o1:
            if k in o2:
                a = same_value(env, o1[k], alt[k]) if isinstance(alt, dict) and k in alt else None
                env.ob('%s[%s]' % (tag, k), same_value(env, o1[k], o2[k]), kf=kf if a is not None else None, alt=a)
        return
    a = same_value(env, pyval(o1), pyval(alt)) if alt is not None and not isinstance(alt, (list, dict)) else None
    env.ob(tag + '.arm', same_value(env, pyval(o1), pyval(o2)), kf=kf if a is not None else None, alt=a)


def compositions(n, max_parts):
    """all ways to cut n rows into consecutive non-empty chunks (at most max_parts)"""
    out = []

    def rec(rest, acc):
        if rest == 0:
            out.append(tuple(acc))
            return
        if len(acc) == max_parts:
            return
        for k in range(1, rest + 1):
            rec(rest - k, acc + [k])
    rec(n, [])
    return out


def fit_args(dec, rew, ctx):
    return (np.asarray(dec), rew) if ctx is None else (np.asarray(dec), rew, ctx)


def query(env, tag, m, d):
    return env.reals('q_%s' % tag, (m, d))


def trained(env, lp, npol, N, A, d=1, labels='int', tag='', partial=0, n_jobs=1, hp=None, seed=None, binarizer=None,
            data=None, fixed_dec=False):
    """a bandit trained through the public API on N symbolic rows (+ `partial` rows by partial_fit)"""
    arms = list(LABELS[labels][:A])
    ctxd = d if needs_contexts(lp, npol) else 0
    if data is None:
        dec, rew, ctx = gen_batch(env, 'h' + tag, arms, N + partial, reward_kind(lp), d=ctxd, fixed_n=N + partial,
                                  fixed_dec=fixed_dec)
        dec = np.asarray(dec)
    else:
        dec, rew, ctx = data
    mab, hp = new_mab(env, arms, lp, npol, tag=tag, n_jobs=n_jobs, hp=hp, seed=seed, binarizer=binarizer)
    mab.fit(*((dec[:N], rew[:N]) + ((ctx[:N],) if ctxd else ())))
    if partial:
        mab.partial_fit(*((dec[N:], rew[N:]) + ((ctx[N:],) if ctxd else ())))
    return mab, hp, (dec, rew, ctx), ctxd


def ask(mab, what, q):
    f = mab.predict if what == 'predict' else mab.predict_expectations
    return f(q) if q is not None else f()


def is_nan(x):
    return isinstance(x, (float, np.floating)) and x != x


NP_QUICK = ['radius:cityblock', 'knearest:2:cityblock', 'lsh:1:1', 'clusters:2', 'tree']


def sync_streams(src, dst):
    """give dst the random-stream positions of src (same sharing structure): used by relational oracles that allow
    two bandits to differ only in how far their generators have advanced"""
    import copy as _copy
    dst._rng.rng = _copy.deepcopy(src._rng.rng)

    def models(m):
        imp = m._imp
        for holder in (imp, getattr(imp, 'lp', None)):
            if holder is not None and hasattr(holder, 'arm_to_model'):
                return holder.arm_to_model
        return None
    ms, md = models(src), models(dst)
    if ms is not None and md is not None:
        memo = {id(src._rng): dst._rng}
        for a in ms:
            if a not in md:
                continue
            r = ms[a].rng
            if id(r) not in memo:
                memo[id(r)] = _copy.deepcopy(r)
            md[a].rng = memo[id(r)]
    if hasattr(src._imp, 'lp_list'):
        for ls, ld in zip(src._imp.lp_list, dst._imp.lp_list):
            if hasattr(ls, 'arm_to_model'):
                memo = {id(src._rng): dst._rng}
                for a in ls.arm_to_model:
                    r = ls.arm_to_model[a].rng
                    if id(r) not in memo:
                        memo[id(r)] = _copy.deepcopy(r)
                    if a in ld.arm_to_model:
                        ld.arm_to_model[a].rng = memo[id(r)]


_HOOKS = ('__getstate__', '__setstate__', '__deepcopy__', '__copy__', '__reduce__', '__reduce_ex__', '__getnewargs__',
          '__getnewargs_ex__')


def clone(obj):
    """harness-level deep copy that does not depend on the copy / pickle hooks of the code under test: hooks defined by
    classes of the mabwiser modules (none on the pinned commit) are taken out for the duration of the copy, so the clone
    is a plain attribute-by-attribute deep copy.  The copies whose fidelity C19 is about are made with copy.deepcopy /
    pickle directly."""
    import copy as _copy
    import inspect
    saved = []
    for mod in M().values():
        for _, cls in inspect.getmembers(mod, inspect.isclass):
            if getattr(cls, '__module__', '').startswith('mabwiser'):
                for h in _HOOKS:
                    if h in cls.__dict__:
                        saved.append((cls, h, cls.__dict__[h]))
    seen = set()
    saved = [x for x in saved if not ((id(x[0]), x[1]) in seen or seen.add((id(x[0]), x[1])))]
    for cls, h, _ in saved:
        try:
            delattr(cls, h)
        except (AttributeError, TypeError):
            pass
    try:
        return _copy.deepcopy(obj)
    finally:
        for cls, h, v in saved:
            try:
                setattr(cls, h, v)
            except (AttributeError, TypeError):
                pass


def compare_on_copies(env, tag, b1, b2, ctxd, m=1, kinds=('expectations', 'predict'), kf=None, alt_sync=False):
    """isolated blocks: deep copies of the two bandits answer the same symbolic query; outputs must be equal.
    kf + alt_sync: listed known finding whose bug-compatible reference is b2 with b1's generator positions"""
    import copy as _copy
    for what in kinds:
        t = '%s.%s' % (tag, what[:4])

        def blk(t=t, what=what):
            c1, c2 = clone(b1), clone(b2)
            q = env.reals('q_%s' % t, (m, ctxd)) if ctxd else None
            alt = None
            if kf and alt_sync:
                c3 = clone(b2)
                sync_streams(c1, c3)
                o1 = ask(c1, what, q)
                alt = ask(c3, what, q)
                outputs_equal(env, t, o1, ask(c2, what, q), kf, alt)
            else:
                outputs_equal(env, t, ask(c1, what, q), ask(c2, what, q), kf)
        env.isolated(t, blk)
