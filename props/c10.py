"""C10 - prediction is read-only.

Relational oracle: bandit Q answers a sequence of queries (predict / predict_expectations, 1 or 2 rows); twin U is a
deep copy taken before and is never queried.  U then receives Q's random-stream positions (the only state queries may
advance) and both run the same continuation (partial_fit, refit, arm changes, warm_start); after every step
deep copies of both answer the same symbolic query inside isolated blocks and must return equal terms.
"""
import copy

import numpy as np

from .common import (LABELS, NP_QUICK, Scenario, ask, compare_on_copies, gen_batch, needs_contexts, reward_kind,
                     sync_streams, trained)
from .c07 import FEATURES


def read_only(env, lp, npol, queries, cont, N=2, A=2, d=1, labels='int', twin=False, fixed_dec=False):
    Q, hp, data, ctxd = trained(env, lp, npol, N, A, d, labels, fixed_dec=fixed_dec)
    U = copy.deepcopy(Q)
    cur = list(LABELS[labels][:A])
    spare = list(LABELS[labels][A:])
    rk = reward_kind(lp)
    for k, qk in enumerate(queries):
        m = 2 if qk in 'EP' else 1
        qq = env.reals('iq%d' % k, (m, ctxd)) if ctxd else None
        ask(Q, 'expectations' if qk in 'eE' else 'predict', qq)
    sync_streams(Q, U)
    if not cont:
        compare_on_copies(env, 'after_queries', Q, U, ctxd)
    for k, op in enumerate(cont):
        tag = '%s%d' % (op, k)
        if op in 'PF':
            dec, rew, ctx = gen_batch(env, tag.lower(), cur, 1, rk, d=ctxd, fixed_n=1 if op == 'P' else 2,
                                      fixed_dec=False)
            if op == 'F' and npol and npol.startswith('tree'):
                pass
            args = (np.asarray(dec), rew) + ((ctx,) if ctxd else ())
            for b in (Q, U):
                (b.partial_fit if op == 'P' else b.fit)(*args)
        elif op == 'A':
            a = spare.pop(0)
            Q.add_arm(a)
            U.add_arm(a)
            cur.append(a)
        elif op == 'R':
            if len(cur) < 2:
                return
            a = env.choose('rm%d' % k, cur)
            Q.remove_arm(a)
            U.remove_arm(a)
            cur.remove(a)
        elif op == 'W':
            if npol or len(cur) < 2:
                continue
            f = {a: FEATURES[a] for a in cur}
            Q.warm_start(f, 1.0)
            U.warm_start(f, 1.0)
            env.ob('%s.cold_arms' % tag, list(Q.cold_arms) == list(U.cold_arms))
        compare_on_copies(env, tag, Q, U, ctxd, m=1)
    if twin:
        env.ob('twin.false', False)


BOUNDS = {
    'quick': dict(training_rows=2, arms='2-3', features=1, intervening_queries=['e (neighbourhood policies)', 'ep (others)'],
                  legend='e/p: predict_expectations/predict with 1 row, E/P: with 2 rows', continuations=['P', 'F', 'AP', 'R',
                                                                                                      'W'],
                  joblib='tasks run in the caller (the mode in which a prediction could leak state)'),
    'thorough': dict(training_rows='2-3', continuations='+ PF, APF, RP, WP, FP', joblib='caller mode and process-copy mode'),
}
OUTSIDE = ['real joblib back ends and instruction-level interleavings', 'floats are reals']
ASSUMPTIONS = ['environment stubs as in DESIGN.md 2.3', 'the unqueried twin receives a copy of every generator state of the '
               'queried bandit before the continuation (random streams are the only state a query may advance)']


def scenarios(tier):
    out = []
    q = tier == 'quick'
    combos = [(lp, None) for lp in ['greedy', 'ucb1', 'softmax', 'thompson', 'popularity', 'lingreedy', 'linucb', 'lints']]
    for npol in NP_QUICK:
        for lp in (['ucb1', 'thompson'] if q else ['greedy0', 'ucb1', 'thompson', 'linucb']):
            if npol == 'tree' and lp == 'linucb':
                continue
            combos.append((lp, npol))
    qs = ['e'] if q else ['ep', 'pE', 'eP']
    conts = ['', 'P', 'F', 'AP', 'R', 'W'] if q else ['P', 'F', 'AP', 'R', 'W', 'PF', 'APF', 'RP', 'WP', 'FP']
    for lp, npol in combos:
        for qu in (qs if npol or not q else ['ep']):
            for cont in conts:
                if 'W' in cont and npol:
                    continue
                if q and npol and cont in ('R',):
                    continue
                heavy = bool(npol)
                big = (npol or '').startswith(('clusters', 'lsh'))
                if q and big and cont not in ('', 'P', 'F'):
                    continue
                out.append(Scenario('%s.%s.%s.%s' % (lp, npol or 'none', qu, cont), read_only,
                                    dict(lp=lp, npol=npol, queries=qu, cont=cont, fixed_dec=q and bool(npol)),
                                    weight=(50 if heavy else 5) * (len(cont) + 1),
                                    max_paths=60000, shards=6 if big else (3 if heavy else 1),
                                    bounds=dict(lp=lp, np=npol, queries=qu, continuation=cont)))
                if not q and npol:
                    out.append(Scenario('%s.%s.%s.%s.proc' % (lp, npol, qu, cont), read_only,
                                        dict(lp=lp, npol=npol, queries=qu, cont=cont), setup=dict(par_other='proc'),
                                        weight=(50 if heavy else 5) * (len(cont) + 1), max_paths=60000,
                                        shards=6 if big else 3))
    out.append(Scenario('twin.ucb1.radius', read_only, dict(lp='ucb1', npol='radius:cityblock', queries='e', cont='P', twin=True),
                        twin=True))
    return out
