"""C13 - warm_start only initialises cold arms, from their nearest trained arm.

Reference-model oracle over a *symbolic distance matrix*: the cosine distances between the arms' feature vectors are
arbitrary reals in [0, 2] (NaN for zero vectors, 0 for duplicates), the quantile is a symbolic real in [0, 1].
W = cold arms whose nearest trained arm (first in arm order on ties) is at distance <= the q-quantile (numpy's linear
interpolation, re-implemented here) of all arms' nearest-other-arm distances.  Every arm-keyed entry of the
implementor's learned state must be unchanged for arms outside W and equal to the source arm's entry for arms in W;
cold_arms = neither observed nor warm; a second call changes nothing; W grows with the quantile.
"""
import copy

import numpy as np

from sx import install
from .common import LABELS, Scenario, ask, gen_batch, is_linear, is_nan, new_mab, outputs_equal, pyval, reward_kind

VECS = {'e1': [1.0, 0.0, 0.0, 0.0], 'e2': [0.0, 1.0, 0.0, 0.0], 'e3': [0.0, 0.0, 1.0, 0.0], 'e4': [0.0, 0.0, 0.0, 1.0],
        'zero': [0.0, 0.0, 0.0, 0.0]}
import math as _math   # noqa: E402
for _deg in (0, 10, 40, 90):
    VECS['a%d' % _deg] = [_math.cos(_math.radians(_deg)), _math.sin(_math.radians(_deg))]
DERIVED = ('arm_to_status', 'arm_to_expectation', 'arm_to_exponent')


def nums(x):
    """flatten the numeric content of a per-arm state entry"""
    if isinstance(x, np.ndarray):
        return [v for v in x.reshape(-1)]
    if isinstance(x, (list, tuple)):
        return [w for v in x for w in nums(v)]
    if hasattr(x, '__dict__') and not callable(x):
        out = []
        for k in ('A', 'A_inv', 'beta', 'Xty'):
            if k in x.__dict__ and x.__dict__[k] is not None:
                out += nums(x.__dict__[k])
        return out
    if x is None:
        return []
    return [x]


def entries(imp, lp):
    """arm-keyed dictionaries of the implementor that hold learned state"""
    out = {}
    for k, v in vars(imp).items():
        if isinstance(v, dict) and k not in DERIVED:
            out[k] = v
    if lp in ('greedy', 'greedy0', 'ucb1', 'thompson'):
        out['arm_to_expectation'] = imp.arm_to_expectation
    return out


def snapshot(imp, lp, arms):
    return {k: {a: nums(copy.deepcopy(v[a])) for a in arms if a in v} for k, v in entries(imp, lp).items()}


def same_list(env, x, y):
    if len(x) != len(y):
        return False
    cs = []
    for a, b in zip(x, y):
        if is_nan(a) or is_nan(b):
            cs.append(is_nan(a) and is_nan(b))
        else:
            cs.append(env.eq(a, b))
    return env.and_(*cs) if cs else True


def dmin(env, vals):
    best = vals[0]
    for v in vals[1:]:
        if env.decide(v < best):
            best = v
    return best


def quantile(env, vals, q):
    s = []
    for v in vals:
        k = len(s)
        while k > 0 and env.decide(v < s[k - 1]):
            k -= 1
        s.insert(k, v)
    n = len(s)
    if n == 1:
        return s[0]
    h = q * (n - 1)
    for k in range(n - 1):
        if env.decide(h < k + 1):
            return s[k] + (s[k + 1] - s[k]) * (h - k)
    return s[n - 1]


class Dist:
    """the distance matrix as the library's environment defines it (symbolic run: fresh reals per pair; concrete=True:
    scipy's cosine distance of the concrete feature vectors)"""

    def __init__(self, env, feats, concrete=False):
        self.env, self.feats, self.concrete = env, feats, concrete

    def d(self, a, b):
        from sx import npx
        if a == b:
            return 999999
        fa, fb = np.array(self.feats[a]), np.array(self.feats[b])
        if not fa.any() or not fb.any():
            return 999999
        if (fa == fb).all():
            return 0.0
        if self.concrete:
            from scipy.spatial.distance import cdist as real
            return float(real(fa[None, :].astype(float), fb[None, :].astype(float), metric='cosine')[0, 0])
        n = npx.cosine_name(fa, fb)
        if self.env.sym:
            return self.env.ctx.scratch['cos'][n]
        return float(self.env.inputs[n])


def expected_W(env, arms, trained, warm, dist, q):
    closest = []
    for a in arms:
        ds = [dist.d(a, b) for b in arms]
        m = dmin(env, ds)
        if not env.decide(env.eq(m, 999999)):
            closest.append(m)
    thr = quantile(env, closest, q)
    W = {}
    for a in arms:
        if a in trained or a in warm:
            continue
        cands = [b for b in arms if b in trained]
        if not cands:
            continue
        best = cands[0]
        for b in cands[1:]:
            if env.decide(dist.d(a, b) < dist.d(a, best)):
                best = b
        if env.decide(dist.d(a, best) <= thr):
            W[a] = best
    return W


ARMS = [3, 1, 2, 4]     # list order differs from the sort order of the labels (tie-breaks must follow list order)


def warm(env, lp, A, N, layout, after='', add_cold=False, twin=False, mono=True, refit_first=False, concrete=False):
    arms = list(ARMS[:A])
    d = 1 if is_linear(lp) else 0
    dec, rew, ctx = gen_batch(env, 'h', arms, N, reward_kind(lp), d=d, fixed_n=N)
    mab, hp = new_mab(env, arms, lp, None)
    mab.fit(*((np.asarray(dec), rew) + ((ctx,) if d else ())))
    if add_cold:
        new = ARMS[A]
        mab.add_arm(new)
        arms.append(new)
    if refit_first:
        # a second fit that may omit previously trained arms: they are cold again
        dec, rew, ctx = gen_batch(env, 'h2', arms, 1, reward_kind(lp), d=d, fixed_n=1)
        mab.fit(*((np.asarray(dec), rew) + ((ctx,) if d else ())))
    feats = {a: VECS[layout[i]] for i, a in enumerate(arms)}
    trained = {a for a in arms if a in set(dec)}
    if len(arms) < 2 or all(not np.array(f).any() for f in feats.values()):
        return
    q = env.real('quantile', 0, 1)
    imp = mab._imp
    before = snapshot(imp, lp, arms)
    mab.warm_start(dict(feats), q)
    dist = Dist(env, feats, concrete)
    W = expected_W(env, arms, trained, set(), dist, q)
    after1 = snapshot(imp, lp, arms)
    for k in before:
        for a in arms:
            if a not in before[k]:
                continue
            if a in W:
                env.ob('copy.%s[%s]' % (k, a), same_list(env, after1[k][a], before[k][W[a]]))
            else:
                env.ob('untouched.%s[%s]' % (k, a), same_list(env, after1[k][a], before[k][a]))
    cold_expected = [a for a in arms if a not in trained and a not in W]
    env.ob('cold_arms', [pyval(a) for a in mab.cold_arms] == cold_expected)
    # repeating the call changes nothing
    mab.warm_start(dict(feats), q)
    after2 = snapshot(imp, lp, arms)
    W2 = expected_W(env, arms, trained, set(W), dist, q)
    env.ob('repeat.no_new_arm', not W2 or True)
    for k in after1:
        for a in arms:
            if a in after1[k] and a not in W2:
                env.ob('repeat.%s[%s]' % (k, a), same_list(env, after2[k][a], after1[k][a]))
    if mono:
        # the set of warm-started arms grows with the quantile (second bandit, same history, larger quantile)
        q2 = env.real('quantile2', 0, 1)
        env.assume(q <= q2)
        m2, _ = new_mab(env, arms[:A], lp, None, seed=hp['seed'], hp=hp)
        m2.fit(*((np.asarray(dec), rew) + ((ctx,) if d else ())))
        if add_cold and not refit_first:
            m2.add_arm(arms[-1])
        m2.warm_start(dict(feats), q2)
        cold2 = [pyval(a) for a in m2.cold_arms]
        env.ob('monotone_in_quantile', all(a in cold_expected for a in cold2))
    if 'P' in after:
        d1, r1, c1 = gen_batch(env, 'p', arms, 1, reward_kind(lp), d=d, fixed_n=1)
        mab.partial_fit(*((np.asarray(d1), r1) + ((c1,) if d else ())))
        env.ob('after_partial_fit.cold_arms',
               [pyval(a) for a in mab.cold_arms] == [a for a in cold_expected if a not in set(d1)])
    if 'F' in after:
        d1, r1, c1 = gen_batch(env, 'r', arms, 1, reward_kind(lp), d=d, fixed_n=1)
        mab.fit(*((np.asarray(d1), r1) + ((c1,) if d else ())))
        env.ob('after_refit.cold_arms', [pyval(a) for a in mab.cold_arms] == [a for a in arms if a not in set(d1)])
    if twin:
        env.ob('twin.false', False)


def _setup():
    def conc(env):
        from scipy.spatial.distance import cdist as real

        def scripted(XA, XB, metric='euclidean', **kw):
            from sx import npx
            XA = np.asarray(XA, dtype=float)
            XB = np.asarray(XB, dtype=float)
            if metric != 'cosine':
                return real(XA, XB, metric=metric, **kw)
            out = np.empty((len(XA), len(XB)))
            for i in range(len(XA)):
                for j in range(len(XB)):
                    a, b = XA[i], XB[j]
                    if not a.any() or not b.any():
                        out[i, j] = np.nan
                    elif (a == b).all():
                        out[i, j] = 0.0
                    else:
                        out[i, j] = float(env.inputs.get(npx.cosine_name(a, b), 1.0))
            return out
        install.MODS['base_mab'].__dict__['cdist'] = scripted
    return dict(cosine_sym=True, conc_setup=conc, no_tv=True)


LAYOUTS3 = [('e1', 'e2', 'e3'), ('e1', 'e1', 'e2'), ('e1', 'e2', 'zero'), ('e1', 'e2', 'e2')]
BOUNDS = {
    'quick': dict(arms='3 (+1 cold arm added after fit)', training_rows=2, features='distinct, duplicate and zero vectors; '
                  'every pairwise cosine distance an arbitrary real in [0,2]', quantile='symbolic in [0,1]',
                  policies='EpsilonGreedy, UCB1, Softmax, Thompson, Popularity, LinGreedy, LinUCB, LinTS',
                  after='nothing / partial_fit / refit'),
    'thorough': dict(arms='3-4', training_rows='2-3'),
}
OUTSIDE = ['all feature vectors zero (numpy quantile of an empty list)', 'fewer than two arms', 'realisability of the distance '
           'matrix by actual vectors (a superset is explored)', 'floats are reals']
ASSUMPTIONS = ['scipy cosine distance = arbitrary symmetric values in [0,2], NaN for zero vectors, 0 for identical vectors',
               'np.quantile = linear interpolation (proxy, validated against numpy by the concrete replays)']


def scenarios(tier):
    out = []
    q = tier == 'quick'
    lps = ['greedy0', 'ucb1', 'softmax', 'thompson', 'popularity', 'lingreedy0', 'linucb', 'lints']
    for lp in lps:
        for li, layout in enumerate(LAYOUTS3):
            if q and li > 1 and lp not in ('ucb1', 'greedy0'):
                continue
            out.append(Scenario('%s.A3.%s' % (lp, '-'.join(layout)), warm,
                                dict(lp=lp, A=3, N=2, layout=layout, mono=(not q) or lp in ('ucb1', 'greedy0', 'linucb')),
                                setup=_setup(), weight=200, shards=4, max_paths=100000,
                                bounds=dict(lp=lp, arms=3, layout=layout)))
        out.append(Scenario('%s.A3.refit_first' % lp, warm,
                            dict(lp=lp, A=3, N=2, layout=('e1', 'e2', 'e3'), refit_first=True, mono=False), setup=_setup(),
                            weight=200, shards=4, max_paths=100000))
        if q and lp in ('softmax', 'popularity'):
            continue
        out.append(Scenario('%s.A2plus1.after_PF' % lp, warm,
                            dict(lp=lp, A=2, N=2, layout=('e1', 'e2', 'e3'), add_cold=True, after='P' if q else 'PF', mono=not q),
                            setup=_setup(),
                            weight=200, shards=4, max_paths=100000))
        if not q:
            out.append(Scenario('%s.A4' % lp, warm, dict(lp=lp, A=4, N=3, layout=('e1', 'e2', 'e3', 'e4')), setup=_setup(),
                                weight=2000, shards=8, max_paths=300000))
            out.append(Scenario('%s.A3plus1.dup' % lp, warm,
                                dict(lp=lp, A=3, N=2, layout=('e1', 'e2', 'e1', 'e2'), add_cold=True, after='P'),
                                setup=_setup(), weight=2000, shards=8, max_paths=300000))
    # four arms with concrete unit vectors at 0, 10, 40 and 90 degrees (real scipy cosine distances, several equal nearest-
    # neighbour distances), symbolic quantile: the threshold is the quantile over one entry per arm, duplicates included
    for lp in (['greedy0'] if q else ['greedy0', 'ucb1', 'linucb']):
        out.append(Scenario('%s.A4.concrete_angles' % lp, warm,
                            dict(lp=lp, A=4, N=3, layout=('a0', 'a10', 'a40', 'a90'), mono=False, concrete=True),
                            setup=dict(no_tv=True), weight=300, shards=4, max_paths=60000,
                            bounds=dict(lp=lp, arms=4, features='unit vectors at 0/10/40/90 degrees', quantile='symbolic')))
    out.append(Scenario('twin.ucb1', warm, dict(lp='ucb1', A=3, N=2, layout=('e1', 'e2', 'e3'), twin=True), setup=_setup(),
                        twin=True))
    return out
