"""C09 - predict returns the first arm (in arm-list order) attaining the maximum of predict_expectations.

Two copies of the same trained bandit (copy.deepcopy and a pickle round trip) are taken at the same random-stream
position; predict_expectations is asked of one, predict of the other.  Rows with an empty neighbourhood (all
expectations NaN) are exempt and checked against the contract of the `choice` sampler instead.
"""
import copy
import pickle

import numpy as np

from .common import LABELS, NP_QUICK, Scenario, ask, is_nan, pyval, trained


def first_argmax(env, tag, arms, exps, pred):
    """obligation: pred is the first arm whose expectation is >= all others"""
    if pred not in arms:
        env.ob(tag + '.member', False)
        return
    k = arms.index(pred)
    conds = [env.le(exps[a], exps[pred]) for a in arms]
    conds += [env.lt(exps[a], exps[pred]) for a in arms[:k]]
    env.ob(tag + '.first_argmax', env.and_(*conds))


def argmax_consistency(env, lp, npol, N, A, d, m, labels='int', partial=0, nnp=None, twin=False, life=''):
    mab, hp, data, ctxd = trained(env, lp, npol, N, A, d, labels, partial=partial)
    # an earlier life of the very bandit that is copied below: it answers queries itself (Q), loses its first arm (R) and
    # gets a new one (A) - caches filled by the queries must not survive the arm changes
    spare = list(LABELS[labels][A:])
    for k, op in enumerate(life):
        if op == 'Q':
            q0 = env.reals('q0_%d' % k, (1, d)) if ctxd else None
            ask(mab, 'predict', q0)
            ask(mab, 'expectations', q0)
        elif op == 'R':
            mab.remove_arm(mab.arms[0])
        elif op == 'A':
            mab.add_arm(spare.pop(0))
    if nnp is not None and npol and (npol.startswith('radius') or npol.startswith('lsh')):
        mab._imp.no_nhood_prob_of_arm = list(nnp)
    arms = [pyval(a) for a in mab.arms]
    q = env.reals('q', (m, d)) if ctxd else None
    twin1 = copy.deepcopy(mab)
    twin2 = pickle.loads(pickle.dumps(mab, protocol=4))
    n0 = len(env.log)
    exps = ask(twin1, 'expectations', q)
    n1 = len(env.log)
    pred = ask(twin2, 'predict', q)
    calls = env.log[n1:]
    rows_e = exps if isinstance(exps, list) else [exps]
    rows_p = pred if isinstance(pred, list) else [pred]
    env.ob('shape', len(rows_e) == len(rows_p) == (m if ctxd else 1))
    if len(rows_e) != len(rows_p):
        return
    choice_calls = [c for c in calls if c[0] == 'choice']
    ci = 0
    for i, (e, p) in enumerate(zip(rows_e, rows_p)):
        p = pyval(p)
        e = {pyval(k): v for k, v in e.items()}
        if all(is_nan(v) for v in e.values()):
            # empty neighbourhood: arm drawn from the configured distribution, never one with probability zero
            ok = p in arms and ci < len(choice_calls)
            if ok:
                _, a_, p_, vals = choice_calls[ci]
                ci += 1
                ok = a_ == len(arms) and arms[int(vals[0])] == p and (p_ is None or p_[int(vals[0])] > 0)
            env.ob('row%d.empty_nhood_choice' % i, ok)
            continue
        if any(is_nan(v) for v in e.values()):
            env.ob('row%d.partial_nan' % i, False)
            continue
        first_argmax(env, 'row%d' % i, arms, e, p)
    if twin:
        env.ob('twin.false', False)


BOUNDS = {
    'quick': dict(rows=3, arms='2-3', features=1, query_rows='1-2', policies='context-free x6, linear x3, '
                  'Radius/KNearest/LSHNearest/Clusters/TreeBandit over EpsilonGreedy(0), UCB1, Thompson, LinUCB'),
    'thorough': dict(rows='3-4 (+1 partial_fit)', arms='2-3', features='1-2', query_rows='1-2'),
}
OUTSIDE = ['TreeBandit with EpsilonGreedy(epsilon > 0) (excluded by the property)', 'floats are reals: ties are exact '
           'real-number ties']
ASSUMPTIONS = ['numpy Generator / KMeans / trees / inv / sqrt / exp uninterpreted with range contracts',
               'copies are made with copy.deepcopy and pickle protocol 4 inside one interpreter']


def scenarios(tier):
    out = []
    q = tier == 'quick'
    for lp in ['greedy', 'ucb1', 'softmax', 'popularity', 'thompson', 'random']:
        out.append(Scenario('%s.none' % lp, argmax_consistency, dict(lp=lp, npol=None, N=3, A=3, d=0, m=1),
                            weight=30, bounds=dict(lp=lp, rows=3, arms=3)))
        if not q:
            out.append(Scenario('%s.none.m2.str' % lp, argmax_consistency,
                                dict(lp=lp, npol=None, N=3, A=3, d=1, m=2, labels='str', partial=1), weight=80))
    for lp in ['lingreedy', 'linucb', 'lints']:
        for m in (1, 2):
            out.append(Scenario('%s.none.m%d' % (lp, m), argmax_consistency,
                                dict(lp=lp, npol=None, N=3, A=3 if m == 1 else 2, d=1 if q else 2, m=m), weight=40 * m))
    for lp in (['linucb', 'lingreedy0', 'ucb1'] if q else ['linucb', 'lingreedy', 'lints', 'ucb1', 'softmax', 'greedy',
                                                           'thompson', 'popularity']):
        out.append(Scenario('%s.none.after_QRA' % lp, argmax_consistency,
                            dict(lp=lp, npol=None, N=2, A=3, d=1, m=1, life='QRA'), weight=80,
                            shards=4, bounds=dict(lp=lp, history='fit, query on the bandit itself, remove_arm, add_arm')))
    nps = list(NP_QUICK)
    if not q:
        nps += ['radius:sqeuclidean', 'knearest:1:chebyshev', 'lsh:2:1', 'clusters:2:mini', 'radius:euclidean']
    for npol in nps:
        for lp in ['greedy0', 'ucb1', 'thompson', 'linucb']:
            if npol == 'tree' and lp == 'linucb':
                continue
            out.append(Scenario('%s.%s' % (lp, npol), argmax_consistency,
                                dict(lp=lp, npol=npol, N=3, A=2, d=1, m=1 if (q and lp in ('greedy0', 'linucb')) else 2,
                                     nnp=[0, 1] if npol.startswith(('radius', 'lsh')) and lp == 'ucb1' else None),
                                weight=200 if npol.startswith(('lsh', 'clusters')) else 60, max_paths=80000,
                                shards=4 if lp in ('ucb1', 'thompson') else 1))
        if not q:
            out.append(Scenario('ucb1.%s.A3.partial' % npol, argmax_consistency,
                                dict(lp='ucb1', npol=npol, N=3, A=3, d=1, m=1, partial=1), weight=400, max_paths=80000))
    out.append(Scenario('twin.ucb1.knearest', argmax_consistency,
                        dict(lp='ucb1', npol='knearest:1:cityblock', N=2, A=2, d=1, m=1, twin=True), twin=True))
    return out
