"""C05 - results do not depend on n_jobs, backend or scheduling.

Three kinds of obligation, all on the real code:
 1. exact cover: BaseMAB._partition_contexts / _effective_jobs with an *unbounded* symbolic number of contexts,
    symbolic n_jobs in [-18, 18] \\ {0} and a symbolic cpu count in [1, 16];
 2. row locality: _predict_contexts on a whole batch equals, row by row, the same call on every contiguous
    chunking executed process-style (deep copy per chunk) with the same per-row seeds; and through the facade
    n_jobs in 1..m+1 with the process-style joblib stub gives the n_jobs = 1 answers;
 3. task order: fit with the per-arm tasks (and LSH per-hash insert tasks) executed in every permutation chosen by
    the solver gives the same model as the program order.
"""
import copy

import numpy as np

from sx import install, stubs
from .common import (LABELS, MAB, NP_QUICK, Scenario, ask, compositions, gen_batch, needs_contexts, new_mab,
                     outputs_equal, pyval, reward_kind, same_value, trained)

KF_TREE = 'KF-C05-treebandit-bandit-level-generator'
KF_LINTS = 'KF-C05-lints-neighbourhood-generator'


# ---- 1. exact cover ---------------------------------------------------------------------------------------------

def partition(env, twin=False):
    n = env.integer('n_contexts', 1, None)
    jobs = env.integer('n_jobs', -18, 18)
    env.assume(env.not_(env.eq(jobs, 0)))
    mab, _ = new_mab(env, [1, 2], 'ucb1', 'radius:cityblock')
    imp = mab._imp
    imp.n_jobs = jobs
    n_jobs, sizes, starts = imp._partition_contexts(n)
    env.ob('jobs.at_least_one', env.le(1, n_jobs))
    env.ob('jobs.at_most_n', env.le(n_jobs, n))
    k = int(n_jobs)
    env.ob('sizes.len', len(sizes) == k and len(starts) == k + 1)
    if len(sizes) != k or len(starts) != k + 1:
        return
    tot = 0
    for i, s in enumerate(sizes):
        env.ob('sizes.nonneg', env.le(0, s))
        env.ob('starts.prefix', env.eq(starts[i], tot))
        tot = tot + s
    env.ob('sizes.sum', env.eq(tot, n))
    env.ob('starts.end', env.eq(starts[k], n))
    env.ob('starts.zero', env.eq(starts[0], 0))
    for i in range(k - 1):
        env.ob('sizes.balanced', env.and_(env.le(sizes[i + 1], sizes[i]), env.le(sizes[i], sizes[i + 1] + 1)))
    if twin:
        env.ob('twin.false', False)


def _cpu(env):
    return env.integer('cpu_count', 1, 16)


def _cpu_conc(env):
    install.MODS['base_mab'].__dict__['mp'] = install._CpuCount(lambda: env.integer('cpu_count', 1, 16))


# ---- 2. row locality ----------------------------------------------------------------------------------------------

def locality(env, lp, npol, N, m, A=2, d=1, is_predict=False, twin=False):
    mab, hp, data, ctxd = trained(env, lp, npol, N, A, d, fixed_dec=True)
    imp = mab._imp
    q = env.reals('q', (m, d))
    seeds = np.empty(m, dtype=object)
    for i in range(m):
        seeds[i] = env.integer('rowseed_%d' % i, 0, 2 ** 31 - 2)
    if not env.sym:
        seeds = np.array([int(s) for s in seeds])
    n0 = len(env.log)
    whole = copy.deepcopy(imp)._predict_contexts(q, is_predict, seeds, 0)
    log_whole = env.log[n0:]
    split = env.choose('chunks', [c for c in compositions(m, m) if len(c) > 1])
    tree_rng = npol == 'tree' and lp in ('thompson', 'greedy')
    lints = lp == 'lints'
    parts = []
    pos = 0
    shared = copy.deepcopy(imp)
    parts_shared = []
    n1 = len(env.log)
    for size in split:
        clone = copy.deepcopy(imp)             # what a process based back end does by pickling the bound method
        parts.extend(clone._predict_contexts(q[pos:pos + size], is_predict, seeds[pos:pos + size], pos))
        pos += size
    log_parts = env.log[n1:]
    if tree_rng:
        pos = 0
        for size in split:
            parts_shared.extend(shared._predict_contexts(q[pos:pos + size], is_predict, seeds[pos:pos + size], pos))
            pos += size
    env.ob('count', len(parts) == len(whole) == m)
    alt_lints = None
    if lints:
        # bug-compatible reference for the listed LinTS finding: the sampler is called with equal distribution parameters
        # in both runs (only the position of the generator the arm models draw from differs)
        mv_w = [c for c in log_whole if c[0] == 'multivariate_normal']
        mv_p = [c for c in log_parts if c[0] == 'multivariate_normal']
        conds = [len(mv_w) == len(mv_p)]
        for cw, cp in zip(mv_w, mv_p):
            for x, y in zip(list(np.asarray(cw[1], dtype=object).reshape(-1)) + list(np.asarray(cw[2], dtype=object).reshape(-1)),
                            list(np.asarray(cp[1], dtype=object).reshape(-1)) + list(np.asarray(cp[2], dtype=object).reshape(-1))):
                conds.append(env.eq(x, y))
        alt_lints = env.and_(*conds)
    for i in range(min(len(parts), len(whole))):
        if lints:
            w, p_ = whole[i], parts[i]
            if isinstance(w, dict) and isinstance(p_, dict) and list(w) == list(p_):
                for k in w:
                    env.ob('row%d[%s]' % (i, k), same_value(env, w[k], p_[k]), kf=KF_LINTS, alt=alt_lints)
            else:
                env.ob('row%d.arm' % i, same_value(env, pyval(w), pyval(p_)) if not isinstance(w, dict) else False,
                       kf=KF_LINTS, alt=alt_lints)
            continue
        outputs_equal(env, 'row%d' % i, whole[i], parts[i], KF_TREE if tree_rng else None,
                      parts_shared[i] if tree_rng else None)
    if twin:
        env.ob('twin.false', False)


def facade_jobs(env, lp, npol, N, m, jobs, A=2, d=1, twin=False):
    mab1, hp, data, ctxd = trained(env, lp, npol, N, A, d, fixed_dec=True, n_jobs=1)
    q = env.reals('q', (m, d))
    ref = {}
    for what in ('expectations', 'predict'):
        ref[what] = ask(copy.deepcopy(mab1), what, q)
    tree_rng = False
    for j in jobs:
        mj, _, _, _ = trained(env, lp, npol, N, A, d, n_jobs=j, hp=hp, seed=hp['seed'], data=data)
        for what in ('expectations', 'predict'):
            out = ask(copy.deepcopy(mj), what, q)
            outputs_equal(env, 'n_jobs%d.%s' % (j, what[:4]), ref[what], out, KF_TREE if tree_rng else None,
                          ref[what] if tree_rng else None)
    if twin:
        env.ob('twin.false', False)


# ---- 3. completion order of tasks that share memory ------------------------------------------------------------------

def task_order(env, lp, npol, N, A=3, d=1, twin=False):
    arms = list(LABELS['int'][:A])
    ctxd = d if needs_contexts(lp, npol) else 0
    rk = reward_kind(lp)
    data = gen_batch(env, 'h', arms, N + 1, rk, d=ctxd, fixed_n=N + 1)
    dec, rew, ctx = np.asarray(data[0]), data[1], data[2]
    stubs.PAR_MODE['sharedmem'] = 'seq'
    a_, hp = new_mab(env, arms, lp, npol, n_jobs=A)
    b_, _ = new_mab(env, arms, lp, npol, n_jobs=A, seed=hp['seed'], hp=hp)

    def train(mb):
        mb.fit(*((dec[:N], rew[:N]) + ((ctx[:N],) if ctxd else ())))
        mb.partial_fit(*((dec[N:], rew[N:]) + ((ctx[N:],) if ctxd else ())))
    train(a_)
    stubs.PAR_MODE['sharedmem'] = 'order'
    try:
        train(b_)
    finally:
        stubs.PAR_MODE['sharedmem'] = 'seq'
    # the same training with n_jobs = 1 (the per-arm tasks exist for every arm whatever the job count)
    c_, _ = new_mab(env, arms, lp, npol, n_jobs=1, seed=hp['seed'], hp=hp)
    train(c_)
    q = env.reals('q', (1, ctxd)) if ctxd else None
    e_a = ask(a_, 'expectations', q)
    outputs_equal(env, 'exp', e_a, ask(b_, 'expectations', q))
    outputs_equal(env, 'exp.vs_n_jobs1', e_a, ask(c_, 'expectations', q))
    outputs_equal(env, 'pred', ask(a_, 'predict', q), ask(b_, 'predict', q))
    if twin:
        env.ob('twin.false', False)


def _order_setup():
    def conc(env):
        import itertools
        for n, mod in install.MODS.items():
            if 'Parallel' in mod.__dict__:
                mod.__dict__['Parallel'] = stubs.ParallelStub
        stubs.PAR_MODE['order_chooser'] = lambda n: list(env.choose('task_order', list(itertools.permutations(range(n)))))
    return dict(par_sharedmem='order', conc_setup=conc, no_tv=True)


BOUNDS = {
    'quick': dict(exact_cover='n_contexts any integer >= 1 (unbounded), n_jobs in [-18,18] without 0, cpu count in [1,16]',
                  row_locality='2-3 query rows, every chunking into >= 2 contiguous chunks, 1-2 stored rows, all neighbourhood '
                  'policies over UCB1 / Thompson / EpsilonGreedy(0)', facade='n_jobs in {2,3} vs 1 with up to 4 query rows, '
                  'process-style joblib stub', task_order='3 arms, every permutation of the per-arm fit tasks and of the LSH '
                  'per-hash insert tasks, fit + partial_fit'),
    'thorough': dict(row_locality='3-4 query rows, + LinTS / Softmax under Radius', facade='n_jobs in 1..m+1',
                     task_order='+ Clusters, linear policies, 4 arms'),
}
OUTSIDE = ['real loky / threading / multiprocessing back ends and pickling of task arguments', 'instruction-level races inside '
           'numpy', 'floats are reals']
ASSUMPTIONS = ['joblib is modelled at task granularity: shared-memory tasks run on the shared object in a solver-chosen order, '
               'other tasks run on deep copies of the bound object', 'mp.cpu_count() returns an arbitrary value in [1,16]']


def scenarios(tier):
    out = []
    q = tier == 'quick'
    out.append(Scenario('partition.exact_cover', partition, {}, setup=dict(cpu_count_fn=_cpu, conc_setup=_cpu_conc, no_tv=True), weight=500,
                        max_paths=20000, shards=8, bounds=dict(n_contexts='>= 1 unbounded', n_jobs='[-18,18] \\ {0}',
                                                               cpu_count='[1,16]')))
    lps = ['ucb1', 'thompson', 'greedy0'] if q else ['ucb1', 'thompson', 'greedy0', 'greedy', 'softmax', 'linucb', 'lints']
    for npol in NP_QUICK:
        for lp in lps:
            if npol == 'tree' and lp in ('softmax', 'linucb', 'lints'):
                continue
            big = npol.startswith(('clusters', 'lsh', 'knearest'))
            out.append(Scenario('locality.%s.%s' % (lp, npol), locality,
                                dict(lp=lp, npol=npol, N=2, m=2 if q else 3, is_predict=(lp == 'greedy0')),
                                weight=80 if big else 30, shards=4 if big else 2, max_paths=60000,
                                bounds=dict(lp=lp, np=npol, stored_rows=2, query_rows=2 if q else 3)))
    # a metric whose scipy implementation looks at *all* rows of the call (seuclidean estimates the variance from them):
    # the distance to a row must not depend on which other rows share its chunk
    for lp in (['greedy0'] if q else ['greedy0', 'ucb1']):
        out.append(Scenario('locality.%s.radius:seuclidean' % lp, locality,
                            dict(lp=lp, npol='radius:seuclidean', N=2, m=2 if q else 3, is_predict=False),
                            weight=60, shards=4, max_paths=60000,
                            bounds=dict(lp=lp, np='radius:seuclidean', stored_rows=2, query_rows=2 if q else 3)))
    # facade: the seeds handed to the chunks, the reduction, and aliasing between rows of one chunk
    out.append(Scenario('facade.thompson.knearest1.m4', facade_jobs,
                        dict(lp='thompson', npol='knearest:1:cityblock', N=1, m=4, jobs=[3, 2]), setup=dict(par_other='proc'),
                        weight=200, shards=2, max_paths=60000, bounds=dict(rows=4, n_jobs=[1, 2, 3])))
    for npol in ['radius:cityblock', 'knearest:1:cityblock', 'lsh:1:1', 'clusters:2', 'tree']:
        for lp in (['ucb1'] if q else ['ucb1', 'thompson', 'linucb']):
            if npol == 'tree' and lp in ('linucb', 'thompson'):
                continue      # TreeBandit with a randomised leaf policy: see the locality scenarios (known finding)
            out.append(Scenario('facade.%s.%s.m2' % (lp, npol), facade_jobs,
                                dict(lp=lp, npol=npol, N=2, m=2, jobs=[2, 3]), setup=dict(par_other='proc'), weight=150,
                                shards=4, max_paths=60000, bounds=dict(rows=2, n_jobs=[1, 2, 3])))
    for lp, npol in [('ucb1', None), ('greedy0', None), ('thompson', None), ('ucb1', 'lsh:1:1'),
                     ('ucb1', 'lsh:2:1'), ('ucb1', 'tree')] + ([] if q else [('linucb', None), ('lints', None), ('softmax', None),
                                                                          ('popularity', None), ('thompson', 'lsh:1:2')]):
        out.append(Scenario('order.%s.%s' % (lp, npol or 'none'), task_order, dict(lp=lp, npol=npol, N=2),
                            setup=_order_setup(), weight=120, shards=4, max_paths=60000,
                            bounds=dict(lp=lp, np=npol, arms=3, permutations='all')))
    out.append(Scenario('twin.partition', partition, dict(twin=True), setup=dict(cpu_count_fn=_cpu, no_tv=True), twin=True))
    out.append(Scenario('twin.locality', locality, dict(lp='ucb1', npol='radius:cityblock', N=1, m=2, twin=True), twin=True))
    return out
