"""C03 - Radius and KNearest use exactly the observations in the neighbourhood.

Reference-model oracle: membership is computed from an independent distance formula (boundary included; for
KNearest any set S of k rows with max over S <= min over the complement is accepted), then a *fresh* bandit of the
underlying learning policy (no neighbourhood policy, seeded with the row's seed) is fitted through the public API on
exactly those rows.  Empty neighbourhood: all expectations NaN, predict follows the `choice` sampler contract.
"""
import copy
import itertools

import numpy as np

from .common import (LABELS, MAB, Scenario, ask, gen_batch, is_nan, needs_contexts, new_mab, outputs_equal, pyval,
                     reward_kind, same_value)


def dist(env, metric, a, b):
    if metric == 'cityblock':
        v = 0
        for x, y in zip(a, b):
            v = v + env.abs(x - y)
        return v
    if metric == 'chebyshev':
        return env.max([env.abs(x - y) for x, y in zip(a, b)])
    v = 0
    for x, y in zip(a, b):
        v = v + (x - y) * (x - y)
    if metric == 'sqeuclidean':
        return v
    if metric == 'euclidean':
        return env.sqrt_cmp(v)
    raise ValueError(metric)


def fresh_lp(env, hp, arms, seed, dec, rew, ctx, rows, what, q):
    """learning policy trained from scratch on exactly `rows`, asked from the given seed"""
    if not env.sym:
        seed = int(seed)
    m = MAB()(list(arms), hp['lp'], None, seed=seed)
    idx = list(rows)
    args = (dec[idx], rew[idx]) + ((ctx[idx],) if m.is_contextual else ())
    m.fit(*args)
    return ask(m, what, q if m.is_contextual else None)


def results_equal(env, r1, r2):
    if isinstance(r1, dict):
        if [pyval(k) for k in r1] != [pyval(k) for k in r2]:
            return False
        return env.and_(*[same_value(env, r1[k], r2[k]) for k in r1])
    return same_value(env, pyval(r1), pyval(r2))


def neighbourhood(env, lp, npol, N, A, d, m=1, partial=0, labels='int', nnp=None, twin=False):
    arms = list(LABELS[labels][:A])
    kind, *rest = npol.split(':')
    metric = rest[-1]
    dec, rew, ctx = gen_batch(env, 'h', arms, N + partial, reward_kind(lp), d=d, fixed_n=N + partial)
    dec = np.asarray(dec)
    mab, hp = new_mab(env, arms, lp, npol)
    if nnp is not None and kind == 'radius':
        mab._imp.no_nhood_prob_of_arm = list(nnp)
    mab.fit(dec[:N], rew[:N], ctx[:N])
    if partial:
        mab.partial_fit(dec[N:], rew[N:], ctx[N:])
    n = N + partial
    q = env.reals('q', (m, d))
    # predict under KNearest is covered by C09 (first arg-max of these expectations); evaluating the oracle's own
    # arg-max for every candidate set would multiply the paths
    for what in (('expectations', 'predict') if kind == 'radius' else ('expectations',)):
        bandit = copy.deepcopy(mab)
        n0 = len(env.log)
        out = ask(bandit, what, q)
        calls = env.log[n0:]
        seeds = calls[0][4] if calls and calls[0][0] == 'randint' else None
        env.ob('%s.seeds' % what, seeds is not None and len(seeds) == m)
        rows = out if isinstance(out, list) else [out]
        env.ob('%s.shape' % what, len(rows) == m and isinstance(out, list) == (m > 1))
        if seeds is None or len(rows) != m:
            return
        choices = [c for c in calls if c[0] == 'choice']
        ci = 0
        for r in range(m):
            tag = '%s.row%d' % (what, r)
            ds = [dist(env, metric, ctx[i], q[r]) for i in range(n)]
            qr = q[r:r + 1]
            if kind == 'radius':
                members = [i for i in range(n) if env.decide(ds[i] <= hp['h']['radius'])]
                if not members:
                    if what == 'expectations':
                        env.ob(tag + '.empty_nan', [pyval(k) for k in rows[r]] == arms and
                               all(is_nan(v) for v in rows[r].values()))
                    else:
                        ok = ci < len(choices)
                        if ok:
                            _, a_, p_, vals = choices[ci]
                            ci += 1
                            ok = a_ == len(arms) and arms[int(vals[0])] == pyval(rows[r]) and \
                                (p_ is None or p_[int(vals[0])] > 0) and (nnp is None or list(p_) == list(nnp))
                        env.ob(tag + '.empty_choice', ok)
                    continue
                want = fresh_lp(env, hp, arms, seeds[r], dec, rew, ctx, members, what, qr)
                env.ob(tag + '.radius_members', results_equal(env, rows[r], want))
                if what == 'expectations':
                    env.observe(tag, [rows[r][a] for a in rows[r]])
            else:
                k = hp['h']['k']
                alts = []
                for S in itertools.combinations(range(n), k):
                    comp = [j for j in range(n) if j not in S]
                    valid = env.and_(*[env.le(ds[i], ds[j]) for i in S for j in comp]) if comp else True
                    if valid is False:
                        continue
                    want = fresh_lp(env, hp, arms, seeds[r], dec, rew, ctx, S, what, qr)
                    alts.append(env.and_(valid, results_equal(env, rows[r], want)))
                env.ob(tag + '.k_nearest_some_valid_set', env.or_(*alts) if alts else False)
    if twin:
        env.ob('twin.false', False)


def radius_fp(env, twin=False):
    """the Radius boundary in IEEE arithmetic: stored rows on an integer grid at squared distances 1, 2, 3, 5, 6 from the
    query, euclidean metric, the radius an arbitrary double in (0.5, 3): the neighbourhood must be the rows whose
    *computed* euclidean distance is <= radius (boundary included), e.g. the row at distance sqrt(3) for radius =
    sqrt(3) although sqrt(3) * sqrt(3) < 3 in doubles.  Only the radius is symbolic (pure QF_FP queries)."""
    from scipy.spatial.distance import cdist as real_cdist
    from .common import LP, NP
    arms = [1, 2]
    ctx = np.array([[1., 0., 0.], [1., 1., 0.], [1., 1., 1.], [2., 1., 0.], [2., 1., 1.]])
    dec = np.array([1, 2, 1, 2, 1])
    rew = np.array([1., 2., 4., 8., 16.])
    q = np.zeros((1, 3))
    radius = env.float64('radius', 0.5, 3.0)
    mab = MAB()(list(arms), LP().UCB1(1.0), NP().Radius(radius, 'euclidean'), seed=3)
    mab.fit(dec, rew, ctx)
    out = mab._imp._predict_contexts(q, False, np.array([5]), 0)[0]
    dists = real_cdist(ctx, q, metric='euclidean').reshape(-1)
    members = [i for i in range(len(ctx)) if env.decide(float(dists[i]) <= radius)]
    env.ob('fp.keys', [pyval(k) for k in out] == arms)
    if not members:
        env.ob('fp.empty_nan', all(is_nan(v) for v in out.values()))
    else:
        ref = MAB()(list(arms), LP().UCB1(1.0), seed=3)
        ref.fit(dec[members], rew[members])
        want = ref.predict_expectations()
        for a in arms:
            env.ob('fp.radius_members[%s]' % a, (not is_nan(out[a])) and float(out[a]) == float(want[a]))
    if twin:
        env.ob('twin.false', False)


BOUNDS = {
    'quick': dict(stored_rows='3 + 1 by partial_fit', features='1-2', query_rows=1, arms=2, k='1-2',
                  metrics=['cityblock', 'sqeuclidean'], policies=['EpsilonGreedy(0)', 'UCB1', 'LinUCB']),
    'thorough': dict(stored_rows='4 + 1', features='1-2', query_rows='1-2', arms='2-3', k='1-3',
                     metrics=['cityblock', 'sqeuclidean', 'chebyshev', 'euclidean'],
                     policies=['EpsilonGreedy(0)', 'UCB1', 'LinUCB', 'Softmax', 'Thompson', 'LinGreedy']),
}
OUTSIDE = ['metrics without exact real arithmetic', 'k larger than the number of stored rows',
           'add_arm before an empty-neighbourhood query', 'IEEE rounding of distances (floats are reals)']
ASSUMPTIONS = ['scipy cdist replaced by exact terms (If for abs/max; euclidean = uninterpreted sqrt with monotonicity '
               'instances between all compared arguments)', 'numpy Generator uninterpreted', 'floats are reals']


def scenarios(tier):
    out = []
    q = tier == 'quick'
    lps = ['greedy0', 'ucb1', 'linucb'] if q else ['greedy0', 'ucb1', 'linucb', 'softmax', 'thompson', 'lingreedy0']
    rad = ['radius:cityblock', 'radius:sqeuclidean'] if q else \
        ['radius:cityblock', 'radius:sqeuclidean', 'radius:chebyshev', 'radius:euclidean']
    knn = ['knearest:1:cityblock', 'knearest:2:sqeuclidean'] if q else \
        ['knearest:1:cityblock', 'knearest:2:sqeuclidean', 'knearest:2:chebyshev', 'knearest:2:euclidean',
         'knearest:3:cityblock']
    for lp in lps:
        for npol in rad + knn:
            N = 3 if q else 4
            d = 2 if ('cityblock' in npol and lp != 'linucb') or (not q and lp in ('greedy0', 'ucb1')) else 1
            if npol.endswith('sqeuclidean') or npol.endswith('euclidean'):
                d = 1 if q else d
            m = 1
            out.append(Scenario('%s.%s' % (lp, npol), neighbourhood,
                                dict(lp=lp, npol=npol, N=N, A=2, d=d, m=m, partial=1,
                                     nnp=[0, 1] if lp == 'ucb1' and npol.startswith('radius') else None),
                                weight=2 ** (N + 1) * 2 ** (N + 1) * d, max_paths=100000, shards=4 if not q else 2,
                                bounds=dict(lp=lp, np=npol, rows=N + 1, d=d, m=m)))
    for npol in ('radius:cityblock', 'knearest:1:cityblock'):
        # several query rows answered by one job share the deep-copied learning policy object
        out.append(Scenario('ucb1.%s.m2' % npol, neighbourhood,
                            dict(lp='ucb1', npol=npol, N=2, A=2, d=1, m=2, partial=1), weight=3000, max_paths=100000,
                            shards=4, bounds=dict(lp='ucb1', np=npol, rows=3, d=1, m=2)))
    # a first fit with exactly k rows (every stored row is a neighbour) followed by partial_fit batches
    for lp, npol, N, partial in [('greedy0', 'knearest:2:cityblock', 2, 2), ('ucb1', 'knearest:1:cityblock', 1, 2)] + \
            ([] if q else [('ucb1', 'knearest:2:sqeuclidean', 2, 2), ('linucb', 'knearest:2:cityblock', 2, 2),
                           ('greedy0', 'knearest:3:cityblock', 3, 2)]):
        out.append(Scenario('%s.%s.first_fit_k_rows' % (lp, npol), neighbourhood,
                            dict(lp=lp, npol=npol, N=N, A=2, d=1, m=1, partial=partial), weight=1500, max_paths=100000,
                            shards=4, bounds=dict(lp=lp, np=npol, rows='%d (= k) + %d by partial_fit' % (N, partial), d=1, m=1)))
    if not q:
        for npol in ('radius:cityblock', 'knearest:2:cityblock'):
            out.append(Scenario('ucb1.%s.m2.A3' % npol, neighbourhood,
                                dict(lp='ucb1', npol=npol, N=3, A=3, d=1, m=2, partial=1, labels='str'),
                                weight=5000, max_paths=200000, shards=8))
    out.append(Scenario('radius.float64.boundary', radius_fp, {}, weight=50, max_paths=500, setup=dict(no_tv=True),
                        bounds=dict(np='radius:euclidean', radius='every float64 in (0.5, 3)', rows='5 concrete rows at squared '
                                    'distances 1, 2, 3, 5, 6', lp='UCB1(1)')))
    out.append(Scenario('twin.radius_fp', radius_fp, dict(twin=True), setup=dict(no_tv=True), twin=True))
    out.append(Scenario('twin.ucb1.radius', neighbourhood,
                        dict(lp='ucb1', npol='radius:cityblock', N=2, A=2, d=1, twin=True), twin=True))
    return out
