"""C15 - the Simulator reports what the public API would have produced.

Relational oracle: the real Simulator.run() (real pandas / sklearn plumbing, symbolic rewards and contexts) versus deep
copies of the original bandits driven through fit / predict / predict_expectations / partial_fit on the simulator's own
test_indices with the documented protocol (offline: fit on the training rows, predict the test rows; online: per
batch predict, read expectations, partial_fit).  Predictions are compared for every bandit, expectations for
policies whose expectations are deterministic.  Radius / KNearest / LSHNearest bandits are internally replaced by the
simulator's re-implementations; several of them with different metrics share one simulation (distance cache).
"""
import copy
import logging

import numpy as np

from sx.install import load
from .common import LABELS, MAB, LP, NP, Scenario, is_nan, make_lp, make_np, pyval, same_value

logging.disable(logging.CRITICAL)
import warnings  # noqa: E402
warnings.filterwarnings("ignore")


def Sim():
    return load()['simulator'].Simulator


def build(env, spec, arms, k):
    lp, npol = spec
    lpol, _ = make_lp(env, lp, tag='_b%d' % k)
    npo, _ = make_np(env, npol, tag='_b%d' % k)
    return MAB()(list(arms), lpol, npo, seed=env.integer('seed_b%d' % k, 0, 2 ** 31 - 1))


def deterministic(spec):
    return spec[0] in ('greedy0', 'ucb1', 'linucb', 'lingreedy0')


def reference(mab, dec, rew, ctx, test, batch):
    n = len(dec)
    tset = set(test)
    train = [i for i in range(n) if i not in tset]
    m = copy.deepcopy(mab)
    cx = m.is_contextual

    def rows(a, idx):
        return a[list(idx)]
    m.fit(*((rows(dec, train), rows(rew, train)) + ((rows(ctx, train),) if cx else ())))
    preds, exps = [], []

    def ask_rows(idx):
        if cx:
            p = m.predict(rows(ctx, idx))
            e = m.predict_expectations(rows(ctx, idx))
            p = p if isinstance(p, list) else [p]
            e = e if isinstance(e, list) else [e]
        else:
            p, e = [], []
            for _ in idx:
                p.append(m.predict())
                e.append(m.predict_expectations())
        return p, e
    if batch == 0:
        p, e = ask_rows(test)
        preds, exps = p, e
    else:
        for s in range(0, len(test), batch):
            idx = test[s:s + batch]
            p, e = ask_rows(idx)
            preds += p
            exps += e
            m.partial_fit(*((rows(dec, idx), rows(rew, idx)) + ((rows(ctx, idx),) if cx else ())))
    return preds, exps


def simulate(env, specs, N, d, test_size, batch, quick, ordered=True, A=2, twin=False, fixed_dec=False, ctx_values=None):
    arms = list(LABELS['int'][:A])
    dec = np.asarray([arms[i % len(arms)] for i in range(N)] if fixed_dec else [env.choose('d_%d' % i, arms) for i in range(N)])
    rew = env.reals('r', (N,))
    if ctx_values is not None:
        # concrete contexts (exact ties between distances), symbolic rewards: distances are float64 arrays in the simulator and
        # in the public API alike, so numpy's own tie-breaking (argpartition's float kernel) is what both sides run
        ctx = np.asarray(ctx_values, dtype=float).reshape(N, d)
    else:
        ctx = env.reals('x', (N, d))
    bandits = [('b%d' % k, build(env, s, arms, k)) for k, s in enumerate(specs)]
    originals = [(nm, copy.deepcopy(b)) for nm, b in bandits]
    sim = Sim()(bandits, dec, rew, ctx, test_size=test_size, is_ordered=ordered, batch_size=batch, is_quick=quick, seed=7)
    sim.run()
    test = list(sim.test_indices)
    env.ob('test_indices.partition', sorted(test) == sorted(set(test)) and all(0 <= i < N for i in test))
    for (nm, orig), spec in zip(originals, specs):
        want_p, want_e = reference(orig, dec, rew, ctx, test, batch)
        got_p = list(sim.bandit_to_predictions[nm])
        got_e = list(sim.bandit_to_expectations[nm])
        env.ob('%s.one_prediction_per_test_row' % nm, len(got_p) == len(test) == len(want_p))
        if len(got_p) != len(want_p):
            continue
        for i in range(len(test)):
            empty = isinstance(want_e[i], dict) and all(is_nan(v) for v in want_e[i].values())
            if deterministic(spec) and not empty:
                env.ob('%s.row%d.prediction' % (nm, i), pyval(got_p[i]) == pyval(want_p[i]))
            if deterministic(spec) and i < len(got_e) and isinstance(got_e[i], dict):
                env.ob('%s.row%d.expectation_keys' % (nm, i), [pyval(k) for k in got_e[i]] == [pyval(k) for k in want_e[i]])
                for k in want_e[i]:
                    if k in got_e[i]:
                        env.ob('%s.row%d.expectation[%s]' % (nm, i, k), same_value(env, got_e[i][k], want_e[i][k]))
    if twin:
        env.ob('twin.false', False)


BOUNDS = {
    'quick': dict(rows='4 (2 train + 2 test, ordered split; decisions alternate between the arms for neighbourhood bandits)', features=1, arms=2, batch_size='0 (offline), 1, 2',
                  is_quick='True and False', bandits='1-2 per simulation: context-free, linear, Radius / KNearest pairs with '
                  'different metrics, LSHNearest, Clusters, TreeBandit; EpsilonGreedy(0) / UCB1 / LinUCB underneath'),
    'thorough': dict(rows='5-6', batch_size='also sizes that do not divide the test set', split='ordered and shuffled'),
}
OUTSIDE = ['randomised learning policies (their predictions depend on protocol-specific generator consumption)', 'rows whose '
           'neighbourhood is empty (random choice)', 'plotting and logging', 'floats are reals']
ASSUMPTIONS = ['environment stubs as in DESIGN.md 2.3', 'pandas / sklearn.model_selection / confusion matrix run for real on '
               'the object arrays']


def scenarios(tier):
    out = []
    q = tier == 'quick'
    singles = [('greedy0', None), ('ucb1', None), ('linucb', None), ('ucb1', 'lsh:1:1'), ('ucb1', 'clusters:2'),
               ('ucb1', 'tree'), ('greedy0', 'knearest:1:cityblock')]
    pairs = [[('greedy0', 'radius:cityblock'), ('greedy0', 'radius:sqeuclidean')],
             [('ucb1', 'radius:cityblock'), ('ucb1', 'knearest:1:sqeuclidean')],
             [('greedy0', 'knearest:1:cityblock'), ('greedy0', 'knearest:1:sqeuclidean')]]
    N = 4 if q else 5
    for batch in ([0, 1] if q else [0, 1, 2, 3]):
        for specs in [[s] for s in singles] + pairs:
            if q and batch == 1 and len(specs) == 1 and specs[0][1] in ('clusters:2', 'tree'):
                continue
            if q and len(specs) > 1 and batch:
                continue       # quick: neighbourhood pairs offline with one test row; the online protocol is covered by singles
            quick = (batch + len(specs)) % 2 == 0
            name = '+'.join('%s.%s' % (a, b or 'none') for a, b in specs)
            small = q and len(specs) > 1
            out.append(Scenario('%s.batch%d.%s' % (name, batch, 'quick' if quick else 'full'), simulate,
                                dict(specs=specs, N=3 if small else N, d=1, test_size=0.3 if small else (0.5 if q else 0.4),
                                     batch=batch, quick=quick, fixed_dec=q and any(s[1] for s in specs)),
                                weight=300 * len(specs), shards=8, max_paths=100000, setup=dict(no_tv=True),
                                bounds=dict(bandits=name, rows=3 if small else N, batch_size=batch, is_quick=quick)))
            if small:
                out.append(Scenario('%s.batch0.full' % name, simulate,
                                    dict(specs=specs, N=3, d=1, test_size=0.3, batch=0, quick=False, fixed_dec=True),
                                    weight=300 * len(specs), shards=8, max_paths=100000, setup=dict(no_tv=True),
                                    bounds=dict(bandits=name, rows=3, batch_size=0, is_quick=False)))
    # a linear learning policy under a neighbourhood policy, in both is_quick modes (the simulator's re-implementations take
    # different routes to the expectations of a row)
    for quick in (True, False):
        out.append(Scenario('linucb.knearest:1:cityblock.batch0.%s' % ('quick' if quick else 'full'), simulate,
                            dict(specs=[('linucb', 'knearest:1:cityblock')], N=4, d=1, test_size=0.5, batch=0, quick=quick,
                                 fixed_dec=True), weight=300, shards=8, max_paths=100000, setup=dict(no_tv=True),
                            bounds=dict(bandits='linucb.knearest:1:cityblock', rows='2 train + 2 test', batch_size=0,
                                        is_quick=quick)))
    # seuclidean: scipy estimates the variance from all rows of one cdist call, so the simulator's shared distance computation
    # must hand it the same rows as the public API does (training rows + one test row)
    out.append(Scenario('greedy0.radius:seuclidean.batch0.quick', simulate,
                        dict(specs=[('greedy0', 'radius:seuclidean')], N=4, d=1, test_size=0.5, batch=0, quick=True,
                             fixed_dec=True), weight=400, shards=8, max_paths=100000, setup=dict(no_tv=True),
                        bounds=dict(bandits='greedy0.radius:seuclidean', rows='2 train + 2 test', batch_size=0)))
    # exact ties with concrete contexts: train distances (1, 1, 0, 0) to the test row - numpy's argpartition picks row 3, a
    # stable sort row 2; the simulator's neighbour selection must be the API's
    for lp in (['greedy0'] if q else ['greedy0', 'ucb1']):
        out.append(Scenario('%s.knearest:1:cityblock.concrete_ties.batch0' % lp, simulate,
                            dict(specs=[(lp, 'knearest:1:cityblock')], N=5, d=1, test_size=0.2, batch=0, quick=True,
                                 fixed_dec=True, ctx_values=[1, 1, 0, 0, 0]), weight=100, max_paths=20000,
                            setup=dict(no_tv=True),
                            bounds=dict(bandits='%s.knearest:1:cityblock' % lp, rows='4 train + 1 test', contexts='concrete '
                                        '(1, 1, 0, 0 | 0): two pairs of tied distances', rewards='symbolic')))
    # exact ties at the k-th neighbour: 4 training rows, k = 1: the smallest size at which numpy's argpartition and a stable sort pick different rows (the simulator's own k-nearest selection must agree with the API's)
    if not q:
      out.append(Scenario('greedy0.knearest:1:cityblock.ties.batch0', simulate,
                        dict(specs=[('greedy0', 'knearest:1:cityblock')], N=5, d=1, test_size=0.2, batch=0, quick=True,
                             fixed_dec=True), weight=600, shards=8, max_paths=100000, setup=dict(no_tv=True),
                        bounds=dict(bandits='greedy0.knearest:1:cityblock', rows='4 train + 1 test', ties='reachable')))
    out.append(Scenario('twin.sim', simulate, dict(specs=[('ucb1', None)], N=4, d=1, test_size=0.5, batch=0, quick=True,
                                                   twin=True), setup=dict(no_tv=True), twin=True))
    return out
