"""C04 - seeded runs are reproducible and bandit instances are isolated.

Relational oracle: the scripted life of a bandit (construct, fit, query, partial_fit, warm_start with tied arm
features, query) is run once alone and once - with equal constructor arguments, including the symbolic seed -
interleaved with intruder bandits of other seeds and policy combinations (default-constructed policy tuples included)
that are constructed, trained and queried at every step.  Generator draws are uninterpreted functions of (seed, call
history), so any dependence on another object's state, on shared defaults or on the iteration order of string sets
(the builtin `set` of the mabwiser modules iterates in a solver-chosen order and the builtin `hash` of anything
containing a str returns an arbitrary integer: PYTHONHASHSEED) shows up as a different
output term.
"""
import numpy as np

from sx import install, stubs
from .common import LABELS, LP, MAB, NP, NP_QUICK, Scenario, ask, gen_batch, needs_contexts, outputs_equal, reward_kind
from .common import make_lp, make_np

TIED = {'a': [1.0, 0.0], 'b': [1.0, 0.0], 'c': [1.0, 1.0], 'd': [0.0, 1.0], 1: [1.0, 0.0], 2: [1.0, 0.0], 3: [1.0, 1.0],
        4: [0.0, 1.0]}


def intrude(env, kind, k, seed, shared=None):
    """construct / train / query another bandit (concrete data; default-constructed policy tuples)"""
    lp, npol = LP(), NP()
    arms = ['a', 'b']
    X = np.array([[0.0, 1.0], [1.0, 0.0], [1.0, 1.0]])
    dec = np.array(['a', 'b', 'a'])
    rew = np.array([1.0, 0.0, 1.0])
    if kind == 'tree':
        MAB()(arms, lp.UCB1(), npol.TreeBandit(), seed=seed)            # default-constructed policy tuple
        MAB()(arms, lp.UCB1(), npol.Radius(2.0, 'cityblock'), seed=seed).fit(dec, rew, X)
    elif kind == 'clusters':
        MAB()(arms, lp.UCB1(), npol.Clusters(), seed=seed)
        MAB()(arms, lp.EpsilonGreedy(), npol.Radius(), seed=seed).fit(dec, rew, X)
    elif kind == 'lsh':
        MAB()(arms, lp.UCB1(), npol.LSHNearest(1, 1), seed=seed)
        MAB()(arms, lp.ThompsonSampling(), npol.KNearest(), seed=seed).fit(dec, rew, X)
    elif kind == 'lints':
        m = MAB()(arms, lp.LinTS(), seed=seed)
        m.fit(dec, rew, X)
        m.predict_expectations(X[:1])
    elif kind == 'softmax':
        m = MAB()(arms, lp.Softmax(), seed=seed)
        m.fit(dec, rew)
        m.predict_expectations()
    elif kind == 'sibling':
        # built from the very list object the bandit under test was (or will be) built from, then grown
        m = MAB()(shared, lp.UCB1(), seed=seed)
        if k == 3:
            m.add_arm('zz%d' % k)
    else:
        raise ValueError(kind)


def life(env, hp, arms, data, q, intruder, seed, iseed, ctxd, warm, add_only=False):
    outs = []
    k = [0]

    def intr():
        if intruder:
            k[0] += 1
            intrude(env, intruder, k[0], iseed, shared)
    shared = list(arms)
    intr()
    mab = MAB()(shared, hp['lp'], hp['np'], seed=seed)
    intr()
    (d0, r0, c0), (d1, r1, c1) = data
    mab.fit(*((np.asarray(d0), r0) + ((c0,) if ctxd else ())))
    intr()
    outs.append(('exp1', ask(mab, 'expectations', q)))
    outs.append(('pred1', ask(mab, 'predict', q)))
    intr()
    mab.partial_fit(*((np.asarray(d1), r1) + ((c1,) if ctxd else ())))
    if add_only:
        mab.add_arm(arms_extra(arms))       # the new arm keeps whatever add_arm gave it (no warm start copies over it)
    elif warm:
        mab.add_arm(arms_extra(arms))
        mab.warm_start({a: TIED[a] for a in mab.arms}, 1.0)
        outs.append(('cold', list(mab.cold_arms)))
    intr()
    outs.append(('exp2', ask(mab, 'expectations', q)))
    outs.append(('pred2', ask(mab, 'predict', q)))
    return outs


def arms_extra(arms):
    pool = LABELS['str'] if isinstance(arms[0], str) else LABELS['int']
    return pool[len(arms)]


def isolation(env, lp, npol, intruder, A=2, d=1, labels='str', twin=False, add_only=False):
    arms = list(LABELS[labels][:A])
    ctxd = d if needs_contexts(lp, npol) else 0
    rk = reward_kind(lp)
    lpol, h1 = make_lp(env, lp)
    npo, h2 = make_np(env, npol)
    hp = dict(lp=lpol, np=npo)
    seed = env.integer('seed', 0, 2 ** 31 - 1)
    iseed = env.integer('intruder_seed', 0, 2 ** 31 - 1)
    data = [gen_batch(env, 'f', arms, 2, rk, d=ctxd, fixed_n=2), gen_batch(env, 'p', arms, 1, rk, d=ctxd, fixed_n=1)]
    q = env.reals('q', (1, ctxd)) if ctxd else None
    warm = not npol
    alone = life(env, hp, arms, data, q, None, seed, iseed, ctxd, warm, add_only)
    crowded = life(env, hp, arms, data, q, intruder, seed, iseed, ctxd, warm, add_only)
    for (t1, o1), (t2, o2) in zip(alone, crowded):
        if t1 == 'cold':
            env.ob('cold_arms', o1 == o2)
        else:
            outputs_equal(env, t1, o1, o2)
    if twin:
        env.ob('twin.false', False)


def _conc_env(env):
    install.install_set(stubs.make_nondet_set(env))
    install.install_hash(stubs.make_nondet_hash(env))


def _set_setup():
    return dict(tree_leaves=2, nondet_set_fn=lambda env: stubs.make_nondet_set(env),
                sym_post=lambda env: install.install_hash(stubs.make_nondet_hash(env)),
                conc_setup=_conc_env, no_tv=True)


BOUNDS = {
    'quick': dict(life='construct, fit(2 rows), query, partial_fit(1 row), add_arm + warm_start with tied arm features (no '
                  'neighbourhood policy), query', intruders='one of: TreeBandit() default, Clusters() default, LSHNearest, '
                  'LinTS() default, Softmax() - constructed, trained and queried at 5 points', labels='str (set order '
                  'nondeterministic)', arms=2, features=1),
    'thorough': dict(life='same', intruders='every kind for every combination', labels='str and int', arms='2-3'),
}
OUTSIDE = ['separate OS processes', 'the real PYTHONHASHSEED (modelled by nondeterministic set iteration order and nondeterministic hash() of str-'
           'containing objects inside the mabwiser modules)', 'BLAS / OpenMP threading', 'global numpy generator use is reported as a harness error']
ASSUMPTIONS = ['numpy Generator = uninterpreted function of (seed, call history)', 'KMeans / trees = uninterpreted functions '
               'of (random_state, training data, row)', 'single interpreter']


def scenarios(tier):
    out = []
    q = tier == 'quick'
    combos = [(lp, None) for lp in ['greedy', 'ucb1', 'softmax', 'popularity', 'thompson', 'random', 'lingreedy', 'linucb',
                                    'lints']]
    for npol in NP_QUICK:
        for lp in (['ucb1', 'thompson'] if q else ['greedy0', 'ucb1', 'thompson', 'softmax', 'linucb', 'lints']):
            if npol == 'tree' and lp in ('linucb', 'lints', 'softmax'):
                continue
            combos.append((lp, npol))
    kinds = ['tree', 'clusters', 'lsh', 'lints', 'softmax', 'sibling']
    for i, (lp, npol) in enumerate(combos):
        ks = [kinds[i % len(kinds)], 'tree', 'sibling'] if q else kinds
        if npol == 'tree' and 'tree' not in ks:
            ks.append('tree')
        for kind in sorted(set(ks)):
            big = (npol or '').startswith(('clusters', 'lsh', 'knearest')) or lp in ('greedy', 'lingreedy', 'softmax')
            out.append(Scenario('%s.%s.vs.%s' % (lp, npol or 'none', kind), isolation,
                                dict(lp=lp, npol=npol, intruder=kind), setup=_set_setup(), weight=60 if big else 10,
                                shards=(8 if (npol or '').startswith('clusters') else 4) if big else 1, max_paths=60000,
                                bounds=dict(lp=lp, np=npol, intruder=kind, labels='str')))
        if not q:
            out.append(Scenario('%s.%s.vs.tree.int' % (lp, npol or 'none'), isolation,
                                dict(lp=lp, npol=npol, intruder='tree', labels='int', A=3), setup=_set_setup(), weight=30,
                                shards=2, max_paths=60000))
    for lp, npol in [('lints', None), ('linucb', None), ('thompson', None), ('softmax', None)] + \
            ([] if q else [('lingreedy', None), ('lints', 'radius:cityblock'), ('ucb1', 'lsh:1:1'), ('thompson', 'clusters:2')]):
        out.append(Scenario('%s.%s.vs.sibling.add_arm_only' % (lp, npol or 'none'), isolation,
                            dict(lp=lp, npol=npol, intruder='sibling', add_only=True), setup=_set_setup(), weight=30,
                            shards=2, max_paths=60000,
                            bounds=dict(lp=lp, np=npol, intruder='sibling', labels='str', life='... add_arm (no warm start), query')))
    out.append(Scenario('twin.ucb1', isolation, dict(lp='ucb1', npol=None, intruder='tree', twin=True), setup=_set_setup(),
                        twin=True))
    return out
