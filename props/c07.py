"""C07 - fit discards everything learned before.

Relational oracle: a bandit with an arbitrary prior history (fit, partial_fit, add/remove arm, warm_start, queries)
is refitted on a new data set D (row and feature counts may differ from before); a freshly constructed bandit with
the same configuration and the current arm list is given the same random-stream position and fitted on D.  Every
later predict_expectations / predict / cold_arms result must be equal.
"""
import copy

import numpy as np

from .common import (LABELS, NP_QUICK, Scenario, ask, gen_batch, is_linear, needs_contexts, new_mab, outputs_equal,
                     reward_kind)

KF_LINTS = 'KF-C07-lints-private-generator'

FEATURES = {1: [1.0, 0.0], 2: [0.9, 0.1], 3: [0.0, 1.0], 4: [0.5, 0.5], 'a': [1.0, 0.0], 'b': [0.9, 0.1], 'c': [0.0, 1.0],
            'd': [0.5, 0.5]}


def refit(env, lp, npol, ops, d0, d1, N0=2, ND=2, A=2, labels='int', m=1, twin=False, then_partial=False):
    arms = list(LABELS[labels][:A])
    spare = list(LABELS[labels][A:])
    ctx0 = d0 if needs_contexts(lp, npol) else 0
    ctx1 = d1 if needs_contexts(lp, npol) else 0
    rk = reward_kind(lp)
    mab, hp = new_mab(env, arms, lp, npol)
    dec, rew, ctx = gen_batch(env, 'f0', arms, N0, rk, d=ctx0, fixed_n=N0)
    mab.fit(*((np.asarray(dec), rew) + ((ctx,) if ctx0 else ())))
    cur = list(arms)
    for k, op in enumerate(ops):
        if op == 'P':
            dec, rew, ctx = gen_batch(env, 'p%d' % k, cur, 1, rk, d=ctx0, fixed_n=1)
            mab.partial_fit(*((np.asarray(dec), rew) + ((ctx,) if ctx0 else ())))
        elif op == 'A':
            a = spare.pop(0)
            mab.add_arm(a)
            cur.append(a)
        elif op == 'R':
            a = env.choose('rm%d' % k, cur)
            if len(cur) < 2:
                return
            mab.remove_arm(a)
            cur.remove(a)
        elif op == 'W' and len(cur) >= 2:
            mab.warm_start({a: FEATURES[a] for a in cur}, 1.0)
        elif op == 'Q':
            qq = env.reals('pq%d' % k, (1, ctx0)) if ctx0 else None
            ask(mab, 'expectations', qq)
            ask(mab, 'predict', qq)
    # new data set D
    dec, rew, ctx = gen_batch(env, 'D', cur, ND, rk, d=ctx1, fixed_n=ND)
    fresh, _ = new_mab(env, cur, lp, npol, seed=hp['seed'], hp=hp)
    fresh._rng.rng = copy.deepcopy(mab._rng.rng)      # same random-stream position
    args = (np.asarray(dec), rew) + ((ctx,) if ctx1 else ())
    kf = None
    compat = None
    if lp == 'lints' and not npol:
        # known finding: per-arm private generator copies (see known_findings.json); bug-compatible reference =
        # a fresh bandit whose arm models receive the refitted bandit's private generators
        kf = KF_LINTS
        compat, _ = new_mab(env, cur, lp, npol, seed=hp['seed'], hp=hp)
        compat._rng.rng = copy.deepcopy(mab._rng.rng)
    mab.fit(*args)
    fresh.fit(*args)
    if compat is not None:
        compat.fit(*args)
        memo = {id(mab._rng): compat._rng}     # keep the sharing structure: untrained arms use the bandit's generator
        for a in cur:
            r = mab._imp.arm_to_model[a].rng
            if id(r) not in memo:
                memo[id(r)] = copy.deepcopy(r)
            compat._imp.arm_to_model[a].rng = memo[id(r)]
    env.ob('arms', list(mab.arms) == list(fresh.arms) == cur)
    env.ob('cold_arms', list(mab.cold_arms) == list(fresh.cold_arms))
    q = env.reals('q', (m, ctx1)) if ctx1 else None
    outputs_equal(env, 'exp', ask(mab, 'expectations', q), ask(fresh, 'expectations', q), kf,
                  ask(compat, 'expectations', q) if compat else None)
    outputs_equal(env, 'pred', ask(mab, 'predict', q), ask(fresh, 'predict', q), kf,
                  ask(compat, 'predict', q) if compat else None)
    if 'W' in ops or not npol:
        mab_w = {a: FEATURES[a] for a in cur}
        if not npol and len(cur) >= 2:
            mab.warm_start(mab_w, 1.0)
            fresh.warm_start(mab_w, 1.0)
            if compat is not None:
                compat.warm_start(mab_w, 1.0)
            env.ob('cold_arms_after_warm_start', list(mab.cold_arms) == list(fresh.cold_arms))
            outputs_equal(env, 'exp_ws', ask(mab, 'expectations', q), ask(fresh, 'expectations', q), kf,
                          ask(compat, 'expectations', q) if compat else None)
    if then_partial and compat is None:
        # "every later sequence of calls": one more batch with the new number of features on both bandits
        d2, r2, c2 = gen_batch(env, 'T', cur, 1, rk, d=ctx1, fixed_n=1)
        a2 = (np.asarray(d2), r2) + ((c2,) if ctx1 else ())
        mab.partial_fit(*a2)
        fresh.partial_fit(*a2)
        outputs_equal(env, 'exp_after_partial_fit', ask(mab, 'expectations', q), ask(fresh, 'expectations', q))
    if twin:
        env.ob('twin.false', False)


BOUNDS = {
    'quick': dict(prior='fit(2 rows) + <= 2 operations out of partial_fit(1 row), add_arm, remove_arm, warm_start, queries',
                  D='2 rows', features='old/new in {1,2}', arms='2-3', query_rows=1),
    'thorough': dict(prior='fit(2-3 rows) + <= 3 operations', D='1-3 rows', features='old/new in {1,2}', arms='2-3',
                     query_rows='1-2'),
}
OUTSIDE = ['floats are reals', 'warm start uses concrete arm features (cosine distances computed by scipy)']
ASSUMPTIONS = ['environment stubs as in DESIGN.md 2.3; the fresh bandit receives a deep copy of the refitted bandit\'s '
               'generator state immediately before fit(D)']


def _combos(q):
    out = []
    for lp in ['greedy', 'ucb1', 'softmax', 'popularity', 'thompson', 'lingreedy', 'linucb', 'lints']:
        out.append((lp, None))
    nps = list(NP_QUICK)
    if not q:
        nps += ['knearest:1:sqeuclidean', 'lsh:2:2', 'clusters:2:mini', 'radius:euclidean']
    for npol in nps:
        for lp in ['greedy0', 'ucb1', 'thompson', 'linucb']:
            if npol == 'tree' and lp == 'linucb':
                continue
            out.append((lp, npol))
    return out


def scenarios(tier):
    out = []
    q = tier == 'quick'

    def add(lp, npol, ops, d0, d1):
        clus = npol is not None and npol.startswith('clusters')
        ND = 2 if q else (3 if clus else 2)
        N0 = 2
        heavy = (npol is not None and npol.startswith(('lsh', 'clusters', 'knearest'))) or \
            lp in ('softmax', 'greedy', 'lingreedy')
        out.append(Scenario('%s.%s.%s.d%d%d' % (lp, npol or 'none', ops, d0, d1), refit,
                            dict(lp=lp, npol=npol, ops=ops, d0=d0, d1=d1, N0=N0, ND=ND),
                            weight=(40 if heavy else 8) * (len(ops) + 1), max_paths=60000,
                            shards=6 if (npol or '').startswith(('clusters', 'lsh')) else 3 if heavy else 1,
                            bounds=dict(lp=lp, np=npol, prior='F' + ops, d_old=d0, d_new=d1, rows_D=ND)))
    if q:
        for lp in ['greedy', 'ucb1', 'softmax', 'popularity', 'thompson']:
            for ops in (['P', 'AW'] if lp in ('greedy', 'softmax') else ['P', 'AW', 'R', 'Q']):
                add(lp, None, ops, 0, 0)
        for lp in ['lingreedy', 'linucb', 'lints']:
            for ops in (['P', 'AW'] if lp == 'lingreedy' else ['P', 'AW', 'Q']):
                add(lp, None, ops, 1, 1)
            add(lp, None, 'P', 2, 1)
        for npol in NP_QUICK:
            big = npol.startswith(('clusters', 'lsh'))
            for lp in (['ucb1', 'thompson', 'linucb'] if npol.startswith('radius') else ['ucb1'] if big else
                       ['ucb1', 'thompson']):
                add(lp, npol, 'P', 1, 1)
                if lp == 'ucb1':
                    add(lp, npol, 'Q', 1, 1)
                    if not big:
                        add(lp, npol, 'A', 1, 1)
                    add(lp, npol, 'P', 2, 1)
    else:
        for lp, npol in _combos(False):
            if npol is None:
                opss = ['P', 'AW', 'AP', 'R', 'Q', 'AWP', 'PAW', 'RAP', 'WQ', 'APR']
            else:
                opss = ['P', 'A', 'Q', 'R', 'AP', 'PQ', 'QP', 'RP']
            for ops in opss:
                for d0, d1 in ([(1, 1), (2, 1), (1, 2)] if (npol or is_linear(lp)) else [(0, 0)]):
                    if (d0, d1) != (1, 1) and ops not in ('P', 'Q', 'AP'):
                        continue
                    add(lp, npol, ops, d0, d1)
    for lp, npol, d0 in [('ucb1', 'tree', 2), ('ucb1', 'tree', 1), ('ucb1', 'lsh:1:1', 2), ('linucb', None, 2)] + \
            ([] if q else [('ucb1', 'clusters:2', 2), ('ucb1', 'radius:cityblock', 2), ('thompson', 'tree', 2)]):
        out.append(Scenario('%s.%s.P.d%d1.then_partial_fit' % (lp, npol or 'none', d0), refit,
                            dict(lp=lp, npol=npol, ops='P', d0=d0, d1=1, then_partial=True), weight=200 if npol else 40,
                            shards=4 if npol else 1, max_paths=60000,
                            bounds=dict(lp=lp, np=npol, prior='FP', d_old=d0, d_new=1, after_refit='partial_fit(1 row)')))
    out.append(Scenario('twin.ucb1.lsh', refit, dict(lp='ucb1', npol='lsh:1:1', ops='P', d0=1, d1=1, twin=True), twin=True))
    return out
