"""C18 - results are independent of the data container type; inputs are never modified.

Relational oracle: a reference bandit is driven with plain Python lists; a second, identically configured bandit
receives the same (symbolic) numbers wrapped in other containers - C- and Fortran-ordered arrays, transposed and strided
views, pandas Series and DataFrames, single-row and single-feature shapes (Series disambiguation) - for training and
for queries.  All outputs must be equal terms; every caller object (containers, arms list, policy tuples, the
tree_parameters / arm-feature dictionaries) must be element-for-element identical before and after each call, and
the bandit's arm list must be independent of the caller's list.
"""
import copy

import numpy as np
import pandas as pd

from .common import LABELS, LP, MAB, NP, Scenario, ask, gen_batch, make_lp, make_np, needs_contexts, outputs_equal, reward_kind


def wrap1(kind, vals, label=False):
    vals = list(vals)
    if kind == 'list':
        return list(vals)
    arr = np.empty(len(vals), dtype=object)
    for i, v in enumerate(vals):
        arr[i] = v
    if label or all(not hasattr(v, 'e') for v in vals):
        arr = np.asarray(vals)
    if kind == 'array':
        return arr
    if kind == 'strided':
        big = np.empty(2 * len(vals), dtype=arr.dtype)
        big[::2] = arr
        big[1::2] = arr[::-1]
        return big[::2]
    if kind == 'series':
        return pd.Series(arr)
    raise ValueError(kind)


def wrap2(kind, rows):
    """rows: list of lists (n x d)"""
    n, d = len(rows), len(rows[0])
    if kind == 'list':
        return [list(r) for r in rows]
    arr = np.empty((n, d), dtype=object)
    for i in range(n):
        for j in range(d):
            arr[i, j] = rows[i][j]
    if all(not hasattr(v, 'e') for r in rows for v in r):
        arr = np.asarray(rows, dtype=float)
    if kind == 'array':
        return arr
    if kind == 'fortran':
        return np.asfortranarray(arr)
    if kind == 'transposed':
        return np.ascontiguousarray(arr.T).T
    if kind == 'strided':
        big = np.empty((2 * n, 2 * d), dtype=arr.dtype)
        big[...] = arr[0, 0]
        big[::2, ::2] = arr
        return big[::2, ::2]
    if kind == 'dataframe':
        return pd.DataFrame(arr)
    if kind == 'series':
        if n == 1:
            return pd.Series(arr[0])
        if d == 1:
            return pd.Series(arr[:, 0])
        raise ValueError('a Series holds one row or one feature')
    raise ValueError(kind)


def elements(x):
    """identity snapshot of a container"""
    if isinstance(x, pd.DataFrame) or isinstance(x, pd.Series):
        x = x.values
    if isinstance(x, np.ndarray):
        return [v for v in x.reshape(-1)] if x.dtype == object else x.copy()
    if isinstance(x, list):
        return [elements(v) if isinstance(v, list) else v for v in x]
    if isinstance(x, dict):
        return {k: elements(v) for k, v in x.items()}
    return x


def same_elements(a, b):
    if isinstance(a, np.ndarray) or isinstance(b, np.ndarray):
        return isinstance(a, np.ndarray) and isinstance(b, np.ndarray) and a.shape == b.shape and bool((a == b).all())
    if isinstance(a, list):
        return isinstance(b, list) and len(a) == len(b) and all(same_elements(x, y) for x, y in zip(a, b))
    if isinstance(a, dict):
        return isinstance(b, dict) and list(a) == list(b) and all(same_elements(a[k], b[k]) for k in a)
    return a is b or (not hasattr(a, 'e') and a == b)


def containers(env, lp, npol, N, d, kd, kr, kc, kq, m=1, binarizer=False, partial=True, labels='int', twin=False,
               reuse=False):
    arms = list(LABELS[labels][:2])
    ctxd = d if needs_contexts(lp, npol) else 0
    BIN = env.ufunc('bin', 2) if binarizer else None
    lpol, _ = make_lp(env, lp, binarizer=BIN)
    tree_params = {'max_depth': 3}
    npo = NP().TreeBandit(tree_params) if npol == 'tree' else make_np(env, npol)[0]
    params_before = copy.deepcopy(tree_params)
    seed = env.integer('seed', 0, 2 ** 31 - 1)
    caller_arms = list(arms)
    ref = MAB()(list(arms), lpol, npo, seed=seed)
    sub = MAB()(caller_arms, lpol, npo, seed=seed)
    env.ob('arms.copy', sub.arms == arms and sub.arms is not caller_arms)
    env.ob('policy_parameters.untouched', tree_params == params_before)
    caller_arms.append('intruder')
    env.ob('arms.independent', sub.arms == arms)
    rk = 'real' if binarizer else reward_kind(lp)
    batches = [('f', N)] + ([('p', 1)] if partial else [])
    for tag, n in batches:
        dec, rew, ctx = gen_batch(env, tag, arms, n, rk, d=ctxd, fixed_n=n, fixed_dec=bool(npol))
        rows = [[ctx[i][j] for j in range(ctxd)] for i in range(n)] if ctxd else None
        kcc = kc
        if ctxd and kcc == 'series' and not (n == 1 or ctxd == 1):
            kcc = 'dataframe'
        c_dec, c_rew = wrap1(kd, dec, label=True), wrap1(kr, list(rew))
        c_ctx = wrap2(kcc, rows) if ctxd else None
        snap = (elements(c_dec), elements(c_rew), elements(c_ctx))
        l_args = (list(dec), list(rew)) + (([list(r) for r in rows],) if ctxd else ())
        s_args = (c_dec, c_rew) + ((c_ctx,) if ctxd else ())
        (ref.fit if tag == 'f' else ref.partial_fit)(*l_args)
        (sub.fit if tag == 'f' else sub.partial_fit)(*s_args)
        env.ob('%s.inputs_untouched' % tag, same_elements(snap[0], elements(c_dec)) and
               same_elements(snap[1], elements(c_rew)) and same_elements(snap[2], elements(c_ctx)))
    if ctxd:
        qv = env.reals('q', (m, ctxd))
        qrows = [[qv[i][j] for j in range(ctxd)] for i in range(m)]
        kqq = kq
        if kqq == 'series' and not (m == 1 or ctxd == 1):
            kqq = 'dataframe'
        c_q = wrap2(kqq, qrows)
        l_q = [list(r) for r in qrows]
        if kqq == 'series' and m == 1 and ctxd == 1:
            pass
    else:
        c_q = l_q = None
    for what in ('expectations', 'predict'):
        snap = elements(c_q)
        o_ref = ask(copy.deepcopy(ref), what, l_q)
        o_sub = ask(copy.deepcopy(sub), what, c_q)
        outputs_equal(env, what[:4], o_ref, o_sub)
        env.ob('%s.query_untouched' % what[:4], same_elements(snap, elements(c_q)))
    if reuse and ctxd and isinstance(c_q, (list, np.ndarray)):
        # a caller that re-uses its query buffer: the same container object is overwritten in place with new values and
        # handed to the same bandit again; the answer must be that of a list built from the new values
        from .common import clone
        sc, rc = clone(sub), clone(ref)
        ask(sc, 'expectations', c_q)
        ask(rc, 'expectations', l_q)
        q2 = env.reals('q2', (m, ctxd))
        new_rows = [[q2[i][j] for j in range(ctxd)] for i in range(m)]
        if isinstance(c_q, list):
            for i in range(m):
                c_q[i][:] = new_rows[i]
        else:
            for i in range(m):
                for j in range(ctxd):
                    c_q[i, j] = new_rows[i][j]
        outputs_equal(env, 'reused_buffer.expe', ask(rc, 'expectations', [list(r) for r in new_rows]),
                      ask(sc, 'expectations', c_q))
    if not npol:
        feats = {a: [1.0, float(i)] for i, a in enumerate(arms)}
        before = copy.deepcopy(feats)
        sub.warm_start(feats, 0.5)
        env.ob('arm_features.untouched', feats == before)
    env.ob('policy_parameters.untouched_end', tree_params == params_before)
    if twin:
        env.ob('twin.false', False)


K1 = ['list', 'array', 'series', 'strided']
K2 = ['list', 'array', 'fortran', 'transposed', 'strided', 'dataframe', 'series']
BOUNDS = {
    'quick': dict(containers_1d=K1, containers_2d=K2, shapes='2x2, 2x1 (single feature), 1x2 (single row; Series as row), '
                  'queries with 1-2 rows', policies='UCB1, Thompson+binarizer, LinUCB, Radius/UCB1, TreeBandit/UCB1 (with '
                  'caller-supplied tree_parameters)'),
    'thorough': dict(policies='+ LinGreedy, LinTS, KNearest, LSHNearest, Clusters', combinations='all 1-D x 2-D container kinds'),
}
OUTSIDE = ['int versus float dtypes and pandas extension dtypes (object dtype carries the symbolic values)',
           'floats are reals']
ASSUMPTIONS = ['environment stubs as in DESIGN.md 2.3', 'real pandas / numpy perform all container conversions']


def scenarios(tier):
    out = []
    q = tier == 'quick'
    combos = [('ucb1', None, False), ('thompson', None, True), ('linucb', None, False), ('ucb1', 'radius:cityblock', False),
              ('ucb1', 'tree', False), ('thompson', 'radius:cityblock', True)]
    if not q:
        combos += [('lingreedy', None, False), ('lints', None, False), ('ucb1', 'knearest:1:cityblock', False),
                   ('ucb1', 'lsh:1:1', False), ('ucb1', 'clusters:2', False), ('thompson', 'tree', True)]
    shapes = [(2, 2, 1), (2, 1, 2), (1, 2, 1)]
    i = 0
    for lp, npol, binz in combos:
        ctx = needs_contexts(lp, npol)
        for (N, d, m) in (shapes if ctx else [(2, 1, 1)]):
            if npol and npol.startswith('clusters') and N < 2:
                continue
            kcs = K2 if ctx else ['list']
            for kc in kcs:
                if kc == 'series' and not (N == 1 or d == 1):
                    continue
                for kd in (K1 if not q else [K1[i % 4]]):
                    i += 1
                    kr = K1[(i + 1) % 4] if not binz else ['array', 'strided', 'series', 'list'][i % 4]
                    kq = K2[(i + 3) % 7]
                    big = bool(npol)
                    out.append(Scenario('%s.%s.N%dd%d.%s-%s-%s-%s' % (lp, npol or 'none', N, d, kd, kr, kc, kq), containers,
                                        dict(lp=lp, npol=npol, N=N, d=d, kd=kd, kr=kr, kc=kc, kq=kq, m=m, binarizer=binz,
                                             partial=N > 1),
                                        weight=60 if big else 10, shards=2 if big else 1, max_paths=60000,
                                        bounds=dict(lp=lp, np=npol, rows=N, features=d, decisions=kd, rewards=kr, contexts=kc,
                                                    query=kq)))
    if q:
        # Clusters hands the caller's C-ordered array to k-means (a possible in-place modification must not reach the caller)
        for kc, kd in (('array', 'array'), ('list', 'list'), ('fortran', 'series')):
            out.append(Scenario('ucb1.clusters:2.N2d2.%s-array-%s-list' % (kd, kc), containers,
                                dict(lp='ucb1', npol='clusters:2', N=2, d=2, kd=kd, kr='array', kc=kc, kq='list', m=1,
                                     binarizer=False, partial=True), weight=80, shards=4, max_paths=60000,
                                bounds=dict(lp='ucb1', np='clusters:2', rows=2, features=2, decisions=kd, rewards='array',
                                            contexts=kc, query='list')))
    # the caller re-uses (overwrites in place) its query container between two calls on the same bandit
    for lp, npol, kq in [('linucb', None, 'list'), ('linucb', None, 'array'), ('linucb', None, 'strided'),
                         ('ucb1', 'knearest:1:cityblock', 'list')] + ([] if q else [('lingreedy', None, 'list'),
                                                                                    ('ucb1', 'radius:cityblock', 'list'),
                                                                                    ('ucb1', 'lsh:1:1', 'fortran')]):
        out.append(Scenario('%s.%s.N2d2.reused_query_%s' % (lp, npol or 'none', kq), containers,
                            dict(lp=lp, npol=npol, N=2, d=2, kd='list', kr='list', kc='list', kq=kq, m=1, partial=False,
                                 reuse=True), weight=100 if npol else 20, shards=4 if npol else 1, max_paths=60000,
                            bounds=dict(lp=lp, np=npol, query=kq, history='fit, query, overwrite the query container in '
                                        'place, query again')))
    out.append(Scenario('twin.linucb', containers, dict(lp='linucb', npol=None, N=2, d=2, kd='series', kr='array',
                                                        kc='dataframe', kq='fortran', twin=True), twin=True))
    return out
