"""C20 - results are invariant to arm names and to the order of training rows; rewards enter only through the
documented statistics.

Relational oracles on the real code: (i) the same history under a one-to-one relabelling of the arms (int, str, float
labels, order kept) gives the same outputs up to renaming; (ii) the same observations presented in a solver-chosen
row permutation give equal expectations; (iii) adding a constant c to every reward shifts EpsilonGreedy / UCB1
expectations by c (every arm observed) and leaves Softmax unchanged, scaling every reward by c scales LinGreedy
expectations by c.
"""
import itertools

import numpy as np

from .common import (LABELS, NP_QUICK, Scenario, ask, gen_batch, needs_contexts, new_mab, outputs_equal, pyval, reward_kind,
                     same_value, trained)


def relabel(env, lp, npol, N, A, d, to, m=1, twin=False, warm=False, partial=False):
    ctxd = d if needs_contexts(lp, npol) else 0
    L1 = list(LABELS['int'][:A])
    L2 = list(LABELS[to][:A])
    mp = dict(zip(L1, L2))
    dec, rew, ctx = gen_batch(env, 'h', L1, N, reward_kind(lp), d=ctxd, fixed_n=N)
    b1, hp = new_mab(env, L1, lp, npol)
    b2, _ = new_mab(env, L2, lp, npol, seed=hp['seed'], hp=hp)
    b1.fit(*((np.asarray(dec), rew) + ((ctx,) if ctxd else ())))
    b2.fit(*((np.asarray([mp[x] for x in dec]), rew) + ((ctx,) if ctxd else ())))
    extra1, extra2 = LABELS['int'][A], LABELS[to][A]
    b1.add_arm(extra1)
    b2.add_arm(extra2)
    mp[extra1] = extra2
    if partial:
        # a later batch that may name the added arm: its label can be wider / of another numeric kind than every label of
        # the first batch (numpy infers the dtype of a decisions array per batch)
        d2 = [env.choose('dp', L1 + [extra1])]
        _, r2, c2 = gen_batch(env, 'p', L1, 1, reward_kind(lp), d=ctxd, fixed_n=1)
        b1.partial_fit(*((np.asarray(d2), r2) + ((c2,) if ctxd else ())))
        b2.partial_fit(*((np.asarray([mp[x] for x in d2]), r2) + ((c2,) if ctxd else ())))
    if warm:
        # the added arm is equidistant from the two (duplicate-feature) initial arms: the tie goes to the first in list order
        F = [[1.0, 0.0], [1.0, 0.0], [1.0, 1.0]]
        b1.warm_start({a: F[i] for i, a in enumerate(L1 + [extra1])}, 1.0)
        b2.warm_start({a: F[i] for i, a in enumerate(L2 + [extra2])}, 1.0)
        env.ob('cold_arms', [mp[pyval(a)] for a in b1.cold_arms] == [pyval(a) for a in b2.cold_arms])
    q = env.reals('q', (m, ctxd)) if ctxd else None
    e1, e2 = ask(b1, 'expectations', q), ask(b2, 'expectations', q)
    p1, p2 = ask(b1, 'predict', q), ask(b2, 'predict', q)
    rows1 = e1 if isinstance(e1, list) else [e1]
    rows2 = e2 if isinstance(e2, list) else [e2]
    env.ob('shape', len(rows1) == len(rows2))
    for i, (r1, r2) in enumerate(zip(rows1, rows2)):
        env.ob('row%d.keys' % i, [mp[pyval(k)] for k in r1] == [pyval(k) for k in r2])
        for k in r1:
            if mp[pyval(k)] in r2:
                env.ob('row%d.exp[%s]' % (i, k), same_value(env, r1[k], r2[mp[pyval(k)]]))
    pl1 = p1 if isinstance(p1, list) else [p1]
    pl2 = p2 if isinstance(p2, list) else [p2]
    for i, (x, y) in enumerate(zip(pl1, pl2)):
        env.ob('row%d.pred' % i, mp[pyval(x)] == pyval(y))
    if twin:
        env.ob('twin.false', False)


def row_order(env, lp, npol, N, A, d, twin=False):
    ctxd = d if needs_contexts(lp, npol) else 0
    arms = list(LABELS['int'][:A])
    dec, rew, ctx = gen_batch(env, 'h', arms, N, reward_kind(lp), d=ctxd, fixed_n=N)
    dec = np.asarray(dec)
    perm = list(env.choose('perm', [p for p in itertools.permutations(range(N)) if list(p) != list(range(N))]))
    b1, hp = new_mab(env, arms, lp, npol)
    b2, _ = new_mab(env, arms, lp, npol, seed=hp['seed'], hp=hp)
    b1.fit(*((dec, rew) + ((ctx,) if ctxd else ())))
    b2.fit(*((dec[perm], rew[perm]) + ((ctx[perm],) if ctxd else ())))
    q = env.reals('q', (1, ctxd)) if ctxd else None
    outputs_equal(env, 'exp', ask(b1, 'expectations', q), ask(b2, 'expectations', q))
    outputs_equal(env, 'pred', ask(b1, 'predict', q), ask(b2, 'predict', q))
    if twin:
        env.ob('twin.false', False)


def reward_law(env, lp, N, A, law, twin=False):
    arms = list(LABELS['int'][:A])
    d = 1 if lp.startswith('lin') else 0
    dec, rew, ctx = gen_batch(env, 'h', arms, N, 'real', d=d, fixed_n=N)
    dec = np.asarray(dec)
    if not all(a in set(dec.tolist()) for a in arms):
        return                                   # the shift law is stated for histories in which every arm is observed
    c = env.real('c')
    rew2 = rew + c if law == 'shift' else rew * c
    b1, hp = new_mab(env, arms, lp, None)
    b2, _ = new_mab(env, arms, lp, None, seed=hp['seed'], hp=hp)
    b1.fit(*((dec, rew) + ((ctx,) if d else ())))
    b2.fit(*((dec, rew2) + ((ctx,) if d else ())))
    q = env.reals('q', (1, d)) if d else None
    n0 = len(env.log)
    e1 = ask(b1, 'expectations', q)
    c1 = env.log[n0:]
    n1 = len(env.log)
    e2 = ask(b2, 'expectations', q)
    c2 = env.log[n1:]
    for a in arms:
        if lp in ('greedy0', 'ucb1'):
            env.ob('shift[%s]' % a, env.eq(e2[a], e1[a] + c))
        elif lp == 'lingreedy0':
            env.ob('scale[%s]' % a, env.eq(e2[a], e1[a] * c))
    if lp == 'softmax':
        d1 = [x for x in c1 if x[0] == 'dirichlet']
        d2 = [x for x in c2 if x[0] == 'dirichlet']
        env.ob('softmax.sampler', len(d1) == 1 and len(d2) == 1)
        if d1 and d2:
            for i, a in enumerate(arms):
                env.ob('softmax.unchanged[%s]' % a, env.eq(d1[0][1][i], d2[0][1][i]))
    if twin:
        env.ob('twin.false', False)


BOUNDS = {
    'quick': dict(relabelling='int -> str and int -> float, 2 arms + 1 added, 2-3 rows, all policy families; strings of growing '
                  'width and mixed int / float labels with a partial_fit after add_arm (UCB1, none / Radius / LSHNearest)',
                  row_order='3 rows, every non-identity permutation, context-free, linear, Radius, LSHNearest',
                  reward_laws='shift for EpsilonGreedy(0)/UCB1/Softmax, scale for LinGreedy(0); 2 arms, 3 rows'),
    'thorough': dict(row_order='4 rows (23 permutations)', relabelling='3 arms + 1'),
}
OUTSIDE = ['floating-point rounding of sums (floats are reals)', 'relabellings that change the arm order']
ASSUMPTIONS = ['environment stubs as in DESIGN.md 2.3']


def scenarios(tier):
    out = []
    q = tier == 'quick'
    cf = ['greedy', 'ucb1', 'softmax', 'popularity', 'thompson', 'random']
    lin = ['lingreedy', 'linucb', 'lints']
    for lp in cf + lin:
        for to in ('str', 'float'):
            out.append(Scenario('relabel.%s.none.%s' % (lp, to), relabel, dict(lp=lp, npol=None, N=2 if q else 3, A=2, d=1, to=to),
                                weight=20, bounds=dict(lp=lp, to=to)))
    for lp in (['greedy', 'ucb1', 'linucb'] if q else cf[:-1] + lin):
        out.append(Scenario('relabel.%s.none.perm.warm' % lp, relabel,
                            dict(lp=lp, npol=None, N=2, A=2, d=1, to='perm', warm=True), weight=30,
                            bounds=dict(lp=lp, to='permuted ints', warm_start='tie between duplicate-feature arms')))
    for npol in NP_QUICK:
        for lp in (['ucb1'] if q else ['ucb1', 'thompson', 'linucb']):
            if npol == 'tree' and lp == 'linucb':
                continue
            for to in (('str',) if q else ('str', 'float')):
                out.append(Scenario('relabel.%s.%s.%s' % (lp, npol, to), relabel,
                                    dict(lp=lp, npol=npol, N=2, A=2, d=1, to=to), weight=150, shards=4, max_paths=100000))
    for npol in ([None, 'radius:cityblock', 'lsh:1:1'] if q else [None] + NP_QUICK):
        for to in ('wide', 'mixed'):
            out.append(Scenario('relabel.ucb1.%s.%s.partial' % (npol or 'none', to), relabel,
                                dict(lp='ucb1', npol=npol, N=2, A=2, d=1, to=to, partial=True), weight=200 if npol else 30,
                                shards=4 if npol else 1, max_paths=100000,
                                bounds=dict(lp='ucb1', np=npol, to=to, history='fit, add_arm, partial_fit(1 row, any arm)')))
    N = 3 if q else 4
    for lp in cf + lin:
        out.append(Scenario('roworder.%s.none' % lp, row_order, dict(lp=lp, npol=None, N=N, A=2, d=1), weight=100,
                            shards=3 if not q else 2, max_paths=100000, bounds=dict(lp=lp, rows=N)))
    for npol in ['radius:cityblock', 'lsh:1:1'] + ([] if q else ['radius:sqeuclidean', 'lsh:1:2']):
        for lp in (['greedy0', 'ucb1'] if q else ['greedy0', 'ucb1', 'thompson', 'linucb']):
            out.append(Scenario('roworder.%s.%s' % (lp, npol), row_order, dict(lp=lp, npol=npol, N=3, A=2, d=1),
                                weight=400, shards=6, max_paths=100000, bounds=dict(lp=lp, np=npol, rows=3)))
    for lp, law in [('greedy0', 'shift'), ('ucb1', 'shift'), ('softmax', 'shift'), ('lingreedy0', 'scale')]:
        out.append(Scenario('law.%s.%s' % (lp, law), reward_law, dict(lp=lp, N=3, A=2, law=law), weight=40,
                            bounds=dict(lp=lp, law=law, rows=3)))
    out.append(Scenario('twin.roworder', row_order, dict(lp='ucb1', npol='radius:cityblock', N=2, A=2, d=1, twin=True),
                        twin=True))
    return out
