"""C12 - Clusters and TreeBandit condition on exactly the query's cell.

Reference-model oracle.  Clusters: the rows whose current k-means label equals the label k-means predicts for the
query (k-means itself is an uninterpreted function of (random_state, training matrix, row): every assignment is
covered); the expectations must equal those of a fresh bandit of the learning policy fitted on exactly those rows.
TreeBandit: for each arm the rewards of that arm whose leaf in that arm's tree equals the query's leaf (trees are
uninterpreted functions with the contract that every leaf holds a training row); the arm's expectation must equal
that of a fresh single-arm learning policy fitted on exactly those rewards; an arm without observations keeps 0.
"""
import copy

import numpy as np

from .common import LABELS, MAB, Scenario, ask, gen_batch, new_mab, outputs_equal, pyval, reward_kind, same_value
from .c03 import fresh_lp, results_equal


def earlier_life(env, mab, arms, lp, d, n):
    """a previous training round on the bandit itself (every arm observed) followed by queries answered by the bandit
    itself: whatever those leave behind must not survive the fit that follows"""
    de, re_, ce = gen_batch(env, 'e', arms, n, reward_kind(lp), d=d, fixed_n=n, fixed_dec=True)
    mab.fit(np.asarray(de), re_, ce)
    q0 = env.reals('q0', (1, d))
    ask(mab, 'expectations', q0)
    ask(mab, 'predict', q0)


def clusters(env, lp, k, mini, N, partial, d=1, A=2, add_arm=False, twin=False, refit=False):
    arms = list(LABELS['int'][:A])
    n = N + partial
    dec, rew, ctx = gen_batch(env, 'h', arms, n, reward_kind(lp), d=d, fixed_n=n)
    dec = np.asarray(dec)
    mab, hp = new_mab(env, arms, lp, 'clusters:%d%s' % (k, ':mini' if mini else ''))
    if refit:
        earlier_life(env, mab, arms, lp, d, max(2, k))
    mab.fit(dec[:N], rew[:N], ctx[:N])
    if add_arm:
        new = LABELS['int'][A]
        mab.add_arm(new)
        arms.append(new)
    if partial:
        mab.partial_fit(dec[N:], rew[N:], ctx[N:])
    q = env.reals('q', (1, d))
    km = mab._imp.kmeans                       # the environment: sklearn's estimator (stub)
    labels = [int(v) for v in km.labels_]
    env.ob('labels.cover_history', len(labels) == n)
    if len(labels) != n:
        return
    cell = int(km.predict(q)[0])
    members = [j for j in range(n) if labels[j] == cell]
    for what in ('expectations', 'predict'):
        bandit = copy.deepcopy(mab)
        k0 = len(env.log)
        out = ask(bandit, what, q)
        calls = env.log[k0:]
        seeds = calls[0][4] if calls and calls[0][0] == 'randint' else None
        env.ob('%s.seeds' % what, seeds is not None and len(seeds) == 1)
        if seeds is None:
            return
        want = fresh_lp(env, hp, arms, seeds[0], dec, rew, ctx, members, what, q) if members else None
        if want is None:
            # an empty cluster: the learning policy was fitted on no rows
            m = MAB()(list(arms), hp['lp'], None, seed=seeds[0] if env.sym else int(seeds[0]))
            m.fit(dec[:0], rew[:0], *((ctx[:0],) if m.is_contextual else ()))
            want = ask(m, what, q if m.is_contextual else None)
        env.ob('%s.cluster_cell' % what, results_equal(env, out, want))
    if twin:
        env.ob('twin.false', False)


def tree(env, lp, N, partial, d=1, A=2, add_arm=False, L=2, twin=False, refit=False):
    arms = list(LABELS['int'][:A])
    n = N + partial
    pool = list(arms) + ([LABELS['int'][A]] if add_arm else [])
    dec0, rew0, ctx0 = gen_batch(env, 'f', arms, N, reward_kind(lp), d=d, fixed_n=N)
    mab, hp = new_mab(env, arms, lp, 'tree')
    if refit:
        earlier_life(env, mab, arms, lp, d, 2)
    mab.fit(np.asarray(dec0), rew0, ctx0)
    dec, rew, ctx = list(dec0), list(rew0), [ctx0[i] for i in range(N)]
    if add_arm:
        mab.add_arm(pool[-1])
        arms = pool
    if partial:
        d1, r1, c1 = gen_batch(env, 'p', arms, partial, reward_kind(lp), d=d, fixed_n=partial)
        mab.partial_fit(np.asarray(d1), r1, c1)
        dec += list(d1)
        rew += list(r1)
        ctx += [c1[i] for i in range(partial)]
    q = env.reals('q', (1, d))
    bandit = copy.deepcopy(mab)
    k0 = len(env.log)
    out = ask(bandit, 'expectations', q)
    calls = env.log[k0:]
    env.ob('keys', isinstance(out, dict) and [pyval(x) for x in out] == arms)
    if not isinstance(out, dict):
        return
    for a in arms:
        rows = [j for j in range(len(dec)) if dec[j] == a]
        if not rows:
            env.ob('unobserved_zero[%s]' % a, same_value(env, out[a], 0))
            continue
        t = mab._imp.arm_to_tree[a]            # the environment: sklearn's estimator (stub)
        try:
            leaf_q = int(t.apply(np.asarray(q, dtype=object))[0])
            leaves = [int(t.apply(np.asarray([ctx[j]], dtype=object))[0]) for j in rows]
        except AttributeError:
            # the arm has observations but its tree was never fitted
            env.ob('tree_fitted[%s]' % a, False)
            continue
        cell = [j for j, lf in zip(rows, leaves) if lf == leaf_q]
        if lp in ('greedy0', 'ucb1'):
            m = MAB()([a], hp['lp'], None, seed=0)
            m.fit(np.asarray([a] * len(cell)), np.asarray([rew[j] for j in cell], dtype=object if env.sym else float))
            want = m.predict_expectations()[a]
            env.ob('leaf_statistic[%s]' % a, same_value(env, out[a], want))
            env.observe('leaf[%s]' % a, out[a])
        else:   # thompson: the Beta parameters of the draw
            s = 0
            for j in cell:
                s = s + rew[j]
            f = len(cell) - s
            betas = [c for c in calls if c[0] == 'beta']
            env.ob('leaf_beta[%s]' % a, env.or_(*[env.and_(env.eq(out[a], c[4][0]), env.eq(c[1], 1 + s), env.eq(c[2], 1 + f))
                                                  for c in betas]) if betas else False)
    if twin:
        env.ob('twin.false', False)


BOUNDS = {
    'quick': dict(rows='3 + 1 by partial_fit', clusters=2, leaves='<= 2', arms='2 (+1 added)', features=1,
                  kmeans='KMeans and MiniBatchKMeans', policies=['EpsilonGreedy(0)', 'UCB1', 'Thompson']),
    'thorough': dict(rows='4 + 1', clusters='2-3', leaves='<= 3', features='1-2', policies='+ LinUCB under Clusters'),
}
OUTSIDE = ['that sklearn\'s k-means / regression trees are themselves correct (any assignment consistent with their contract '
           'is covered)', 'a Thompson binarizer under TreeBandit (C14)', 'floats are reals']
ASSUMPTIONS = ['KMeans.predict / labels_ and DecisionTreeRegressor.apply are uninterpreted functions of (random_state, '
               'training data, row); every leaf returned for a query holds at least one training row']


def scenarios(tier):
    out = []
    q = tier == 'quick'
    for lp in (['greedy0', 'ucb1', 'thompson'] if q else ['greedy0', 'ucb1', 'thompson', 'linucb', 'softmax']):
        for mini in (False, True):
            if q and mini and lp != 'ucb1':
                continue
            out.append(Scenario('clusters.%s.%s' % (lp, 'mini' if mini else 'kmeans'), clusters,
                                dict(lp=lp, k=2, mini=mini, N=2 if q else 3, partial=1), weight=300, shards=6, max_paths=100000,
                                bounds=dict(lp=lp, k=2, rows=(2 if q else 3) + 1, minibatch=mini)))
        out.append(Scenario('clusters.%s.addarm' % lp, clusters, dict(lp=lp, k=2, mini=False, N=2, partial=1, add_arm=True),
                            weight=400, shards=6, max_paths=100000))
        if not q:
            out.append(Scenario('clusters.%s.k3' % lp, clusters, dict(lp=lp, k=3, mini=False, N=3, partial=1),
                                weight=900, shards=8, max_paths=200000))
    for lp in ['greedy0', 'ucb1', 'thompson']:
        out.append(Scenario('tree.%s' % lp, tree, dict(lp=lp, N=2 if q else 3, partial=1), setup=dict(tree_leaves=2),
                            weight=300, shards=6, max_paths=100000, bounds=dict(lp=lp, rows=(2 if q else 3) + 1, leaves=2)))
        out.append(Scenario('tree.%s.addarm' % lp, tree, dict(lp=lp, N=2, partial=1, add_arm=True),
                            setup=dict(tree_leaves=2), weight=300, shards=6, max_paths=100000))
        if not q:
            out.append(Scenario('tree.%s.L3.d2' % lp, tree, dict(lp=lp, N=3, partial=1, d=2), setup=dict(tree_leaves=3),
                                weight=900, shards=8, max_paths=200000))
    # refit after an earlier life (fit + queries on the bandit itself): an arm the new data omit is back to 0
    for lp in (['greedy0', 'ucb1'] if q else ['greedy0', 'ucb1', 'thompson']):
        out.append(Scenario('tree.%s.refit_after_queries' % lp, tree, dict(lp=lp, N=2, partial=0 if q else 1, refit=True),
                            setup=dict(tree_leaves=2), weight=500, shards=6, max_paths=100000,
                            bounds=dict(lp=lp, history='fit(2 rows) + 2 queries + fit(2 rows)', leaves=2)))
    out.append(Scenario('clusters.ucb1.refit_after_queries', clusters, dict(lp='ucb1', k=2, mini=False, N=2, partial=0 if q else 1,
                                                                          refit=True), weight=500, shards=6, max_paths=100000,
                        bounds=dict(lp='ucb1', k=2, history='fit(2 rows) + 2 queries + fit(2 rows)')))
    out.append(Scenario('twin.clusters', clusters, dict(lp='ucb1', k=2, mini=False, N=2, partial=0, twin=True), twin=True))
    out.append(Scenario('twin.tree', tree, dict(lp='ucb1', N=2, partial=0, twin=True), twin=True))
    return out
