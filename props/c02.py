"""C02 - linear policies are exact per-arm ridge regressions with the stated bonus.

Reference-model oracle: per arm the normal equations A* = sum x x' + lambda I, b* = sum x y are accumulated from
the raw history; beta* = inv(A*) b* with the *same uninterpreted inverse* the implementation's np.linalg.inv is
mapped to, so that equality follows from equality of the (sum-of-monomials normalised) polynomial entries.
A never-observed arm has beta* = 0 and covariance I / lambda (exact, no inverse needed).
"""
import numpy as np

from .common import LABELS, Scenario, compositions, gen_batch, new_mab

KF_COV = 'KF-C02-untrained-covariance'


class Ridge:
    """documented per-arm model, computed from raw rows"""

    def __init__(self, env, d, lam):
        self.env, self.d, self.lam = env, d, lam
        self.rows = []

    def add(self, x, y):
        self.rows.append((x, y))

    def normal(self):
        d = self.d
        A = np.empty((d, d), dtype=object)
        b = np.empty(d, dtype=object)
        for i in range(d):
            for j in range(d):
                v = self.lam if i == j else 0
                for x, y in self.rows:
                    v = v + x[i] * x[j]
                A[i, j] = v
            w = 0
            for x, y in self.rows:
                w = w + x[i] * y
            b[i] = w
        return A, b

    def ainv(self, bugcompat=False):
        d = self.d
        if not self.rows:
            Ai = np.empty((d, d), dtype=object)
            for i in range(d):
                for j in range(d):
                    Ai[i, j] = (self.lam if bugcompat else 1 / self.lam) if i == j else 0
            return Ai
        A, _ = self.normal()
        return self.env.inv(A)

    def beta(self):
        d = self.d
        if not self.rows:
            return [0] * d
        _, b = self.normal()
        Ai = self.ainv()
        out = []
        for i in range(d):
            v = 0
            for j in range(d):
                v = v + Ai[i, j] * b[j]
            out.append(v)
        return out


def dot(a, b):
    v = 0
    for x, y in zip(a, b):
        v = v + x * y
    return v


def quad(x, M):
    """x' M x in the association order the implementation uses: sum_j (sum_i x_i M_ij) x_j"""
    v = 0
    for j in range(len(x)):
        inner = 0
        for i in range(len(x)):
            inner = inner + x[i] * M[i, j]
        v = v + inner * x[j]
    return v


def ridge(env, lp, d, m, N, A, max_chunks, add_after=False, alpha0=False, labels='int', twin=False):
    arms = list(LABELS[labels][:A])
    dec, rew, ctx = gen_batch(env, 'h', arms, N, 'real', d=d, fixed_n=N)
    split = env.choose('split', compositions(N, max_chunks))
    mab, hp = new_mab(env, arms, lp)
    h = hp['h']
    lam = h['l2']
    models = {a: Ridge(env, d, lam) for a in arms}
    pos = 0
    dec = np.asarray(dec)
    for k, size in enumerate(split):
        args = (dec[pos:pos + size], rew[pos:pos + size], ctx[pos:pos + size])
        (mab.fit if k == 0 else mab.partial_fit)(*args)
        for i in range(pos, pos + size):
            models[dec[i].item() if hasattr(dec[i], 'item') else dec[i]].add(ctx[i], rew[i])
        pos += size
    if add_after:
        new = LABELS[labels][A]
        mab.add_arm(new)
        arms.append(new)
        models[new] = Ridge(env, d, lam)
        if add_after == 'train':
            d2, r2, c2 = gen_batch(env, 'p', arms, 1, 'real', d=d, fixed_n=1)
            mab.partial_fit(np.asarray(d2), r2, c2)
            models[d2[0]].add(c2[0], r2[0])
    if alpha0:
        # the limit alpha -> 0 of LinTS: the facade rejects alpha = 0, so it is set on the model objects
        mab._imp.alpha = 0
        for mdl in mab._imp.arm_to_model.values():
            mdl.alpha = 0
    q = env.reals('q', (m, d))
    n0 = len(env.log)
    out = mab.predict_expectations(q)
    calls = env.log[n0:]
    rows = out if isinstance(out, list) else [out]
    env.ob('shape', (isinstance(out, list) and len(out) == m) if m > 1 else isinstance(out, dict))
    if len(rows) != m:
        return
    for r in rows:
        env.ob('keys', list(r.keys()) == arms)
    betas = {a: models[a].beta() for a in arms}
    if lp in ('lingreedy', 'lingreedy0'):
        u = calls[0][2] if calls and calls[0][0] == 'rand' else None
        env.ob('sampler', u is not None and len(u) == m)
        if u is None:
            return
        draws = [v for c in calls[1:] if c[0] == 'rand' for v in c[2]]
        for i in range(m):
            if env.decide(u[i] < h['epsilon']):
                for a in arms:
                    env.ob('explore.row%d[%s]' % (i, a), env.or_(*[env.eq(rows[i][a], v) for v in draws])
                           if draws else False)
            else:
                for a in arms:
                    env.ob('exploit.row%d[%s]' % (i, a), env.eq(rows[i][a], dot(q[i], betas[a])))
                    env.observe('exploit.row%d[%s]' % (i, a), rows[i][a])
    elif lp == 'linucb':
        for i in range(m):
            for a in arms:
                cold = not models[a].rows
                want = dot(q[i], betas[a]) + h['alpha'] * env.sqrt(quad(q[i], models[a].ainv()))
                alt = None
                if cold:
                    alt = env.eq(rows[i][a], dot(q[i], betas[a]) + h['alpha'] *
                                 env.sqrt(quad(q[i], models[a].ainv(bugcompat=True))))
                env.ob('ucb.row%d[%s]%s' % (i, a, '.cold' if cold else ''), env.eq(rows[i][a], want),
                       kf=KF_COV if cold else None, alt=alt)
                env.observe('ucb.row%d[%s]' % (i, a), rows[i][a])
    elif lp == 'lints':
        mv = [c for c in calls if c[0] == 'multivariate_normal']
        env.ob('sampler', len(mv) == len(arms))
        if len(mv) != len(arms):
            return
        alpha = 0 if alpha0 else h['alpha']
        for k, a in enumerate(arms):
            _, mean, cov, size, outs = mv[k]
            cold = not models[a].rows
            env.ob('mvn.size[%s]' % a, (size == m) or (size == (m,)))
            env.ob('mvn.dims[%s]' % a, len(mean) == d and np.asarray(cov, dtype=object).shape == (d, d))
            if len(mean) != d or np.asarray(cov, dtype=object).shape != (d, d) or len(outs) != m * d:
                continue
            Ai = models[a].ainv()
            Ab = models[a].ainv(bugcompat=True) if cold else None
            for i in range(d):
                env.ob('mvn.mean[%s]' % a, env.eq(mean[i], betas[a][i]))
                for j in range(d):
                    env.ob('mvn.cov[%s]%s' % (a, '.cold' if cold else ''), env.eq(cov[i][j], alpha * alpha * Ai[i, j]),
                           kf=KF_COV if cold else None,
                           alt=env.eq(cov[i][j], alpha * alpha * Ab[i, j]) if cold else None)
            for r in range(m):
                draw = [outs[r * d + j] for j in range(d)]
                env.ob('draw.row%d[%s]' % (r, a), env.eq(rows[r][a], dot(q[r], draw)))
                if alpha0:
                    env.ob('alpha0.row%d[%s]' % (r, a), env.eq(rows[r][a], dot(q[r], betas[a])))
    if twin:
        env.ob('twin.false', False)


TOL = 1e-6


def ridge_scaled(env, lp, d, m, N, A=2, twin=False):
    """scale=True, single fit: per-arm standardised features (population mean / std; a feature whose std is <= 1e-6 keeps
    scale 1), ridge regression on the standardised rows, queries standardised with the arm's own scaler"""
    arms = list(LABELS['int'][:A])
    dec, rew, ctx = gen_batch(env, 'h', arms, N, 'real', d=d, fixed_n=N, floatable=True)
    dec = np.asarray(dec)
    mab, hp = new_mab(env, arms, lp, scale=True)
    h = hp['h']
    lam = h['l2']
    mab.fit(dec, rew, ctx)
    q = env.reals('q', (m, d), floatable=True)
    n0 = len(env.log)
    out = mab.predict_expectations(q)
    calls = env.log[n0:]
    rows = out if isinstance(out, list) else [out]
    env.ob('shape', len(rows) == m)
    if len(rows) != m:
        return
    for a in arms:
        idx = [i for i in range(N) if dec[i] == a]
        model = Ridge(env, d, lam)
        if idx:
            n = len(idx)
            mean = [sum((ctx[i][j] for i in idx), 0) / n for j in range(d)]
            var = [sum(((ctx[i][j] - mean[j]) * (ctx[i][j] - mean[j]) for i in idx), 0) / n for j in range(d)]
            scale = []
            for j in range(d):
                if env.decide(env.eq(var[j], 0)):
                    scale.append(1)
                else:
                    sd = env.sqrt(var[j])
                    scale.append(1 if env.decide(sd <= TOL) else sd)
            for i in idx:
                model.add([(ctx[i][j] - mean[j]) / scale[j] for j in range(d)], rew[i])
            zq = [[(q[r][j] - mean[j]) / scale[j] for j in range(d)] for r in range(m)]
        else:
            zq = [[q[r][j] for j in range(d)] for r in range(m)]      # an arm without data has no fitted scaler
        beta = model.beta()
        for r in range(m):
            if lp == 'linucb':
                cold = not idx
                want = dot(zq[r], beta) + h['alpha'] * env.sqrt(quad(zq[r], model.ainv()))
                alt = env.eq(rows[r][a], dot(zq[r], beta) + h['alpha'] * env.sqrt(quad(zq[r], model.ainv(bugcompat=True)))) \
                    if cold else None
                env.ob('scaled.ucb.row%d[%s]%s' % (r, a, '.cold' if cold else ''), env.eq(rows[r][a], want),
                       kf=KF_COV if cold else None, alt=alt)
            elif lp == 'lingreedy0':
                env.ob('scaled.exploit.row%d[%s]' % (r, a), env.eq(rows[r][a], dot(zq[r], beta)))
    if twin:
        env.ob('twin.false', False)


BOUNDS = {
    'quick': dict(features='1-2', query_rows='1-2', rows='3', arms='2 (+1 added after fit)', chunks='<= 2',
                  policies='LinGreedy (epsilon symbolic), LinUCB, LinTS with scale=False; LinGreedy(0) and LinUCB with scale=True (single '
                           'fit, 1 feature)'),
    'thorough': dict(features='1-3', query_rows='1-3', rows='<= 4', arms='2-3 (+1 added and trained after fit)',
                     chunks='<= 3', policies='LinGreedy, LinUCB, LinTS; scale=False and scale=True (single fit)'),
}
OUTSIDE = ['l2_lambda = 0', 'rounding of the matrix inverse (linalg.inv is an uninterpreted function with the contract '
           'A inv(A) = I)', 'scale=True together with partial_fit (excluded by the property)', 'scale=True for LinTS and for exploring LinGreedy',
           'the distribution of the multivariate normal draw itself: the obligation is about its parameters (mean beta, '
           'covariance alpha^2 A^-1, which implies convergence to x.beta as alpha -> 0) and how the draw is combined with '
           'the context; alpha = 0 itself is rejected by the facade and makes numpy\'s Cholesky sampler fail']
ASSUMPTIONS = ['np.linalg.inv / np.sqrt uninterpreted over sum-of-monomials normal forms', 'floats are reals',
               'numpy Generator uninterpreted; multivariate_normal with an all-zero covariance returns the mean']


def scenarios(tier):
    out = []
    q = tier == 'quick'
    for lp in ('lingreedy', 'linucb', 'lints'):
        for d in ((1, 2) if q else (1, 2, 3)):
            for m in ((1, 2) if q else (1, 2, 3)):
                if not q and d == 3 and m == 3:
                    continue
                N = 3 if (q or d == 3) else 4
                out.append(Scenario('%s.d%d.m%d' % (lp, d, m), ridge,
                                    dict(lp=lp, d=d, m=m, N=N, A=2, max_chunks=2 if q else 3),
                                    weight=2 ** N * d * d * m, bounds=dict(lp=lp, d=d, m=m, rows=N)))
        out.append(Scenario('%s.addarm' % lp, ridge, dict(lp=lp, d=2 if not q else 1, m=1, N=2, A=2, max_chunks=2,
                                                          add_after=True), weight=8))
        out.append(Scenario('%s.addarm.train' % lp, ridge, dict(lp=lp, d=1 if q else 2, m=1 if q else 2, N=2, A=2,
                                                                max_chunks=2, add_after='train'), weight=30))
        if not q:
            out.append(Scenario('%s.A3.str' % lp, ridge, dict(lp=lp, d=2, m=1, N=3, A=3, max_chunks=3, labels='str'),
                                weight=60))
    for lp in ('lingreedy0', 'linucb'):
        for d, m in ([(1, 1), (1, 2)] if q else [(1, 1), (1, 2), (2, 1), (2, 2)]):
            N = 3
            out.append(Scenario('%s.scaled.d%d.m%d' % (lp, d, m), ridge_scaled, dict(lp=lp, d=d, m=m, N=N), weight=60 * d * d,
                                shards=2, max_paths=60000, bounds=dict(lp=lp, d=d, m=m, rows=N, scale=True)))
    out.append(Scenario('twin.linucb', ridge, dict(lp='linucb', d=1, m=1, N=2, A=2, max_chunks=2, twin=True), twin=True))
    return out
