"""sx.lemmas - CrossHair (symbolic execution of plain Python with z3) on the pure-Python helpers of mabwiser.

The numeric code of mabwiser cannot be driven by CrossHair (it realises symbolic values at the numpy C boundary), but the
small helpers that the properties lean on are plain Python: utils.argmax / argmin (first extremal key: C01, C09, C13,
C20), utils.reset (C07), utils.check_true / check_false (C17) and BaseMAB._effective_jobs (C05).  For each property that
depends on one of them a contract module is generated at run time (it imports the helpers from the repository's working
tree), `crosshair check --report_all` is run on it with a fixed per-condition timeout, and the verdicts are reported in the
evidence:  "Confirmed over all paths" = holds for every input of the stated arity; a counterexample is re-executed
concretely in a fresh interpreter and reported as a violation only if it reproduces; "Not confirmed" / "Unable to meet
precondition" are inconclusive and recorded as such (they do not decide the property: the sx scenarios do).
"""
import json
import os
import re
import subprocess
import sys
import time

VERIF = os.path.dirname(os.path.dirname(os.path.abspath(__file__)))
REPO = os.environ.get('MABWISER_REPO', '/repo')

HEADER = '''import sys
sys.path.insert(0, %(repo)r)
import mabwiser.utils as _u
import mabwiser.base_mab as _bm
assert _u.__file__.startswith(%(repo)r), _u.__file__


class _MP:
    def __init__(self, n):
        self._n = n

    def cpu_count(self):
        return self._n

'''

LEMMA_SRC = {
    'argmax_first': '''
def lemma_argmax_first(v0: int, v1: int, v2: int) -> bool:
    """
    post: _
    """
    vals = [v0, v1, v2]
    arms = ['b', 'a', 'c']
    got = _u.argmax(dict(zip(arms, vals)))
    best = 0
    for i in (1, 2):
        if vals[i] > vals[best]:
            best = i
    return got == arms[best]
''',
    'argmin_first': '''
def lemma_argmin_first(v0: int, v1: int, v2: int) -> bool:
    """
    post: _
    """
    vals = [v0, v1, v2]
    arms = ['b', 'a', 'c']
    got = _u.argmin(dict(zip(arms, vals)))
    best = 0
    for i in (1, 2):
        if vals[i] < vals[best]:
            best = i
    return got == arms[best]
''',
    'reset_all': '''
def lemma_reset_all(a: float, b: float, c: float, value: int) -> bool:
    """
    post: _
    """
    d = {'x': a, 3: b, 1.5: c}
    _u.reset(d, value)
    return list(d.keys()) == ['x', 3, 1.5] and all(v == value for v in d.values())
''',
    'check_true_false': '''
def lemma_check_true_false(flag: bool) -> bool:
    """
    post: _
    """
    raised_t = raised_f = False
    try:
        _u.check_true(flag, ValueError('t'))
    except ValueError:
        raised_t = True
    try:
        _u.check_false(flag, TypeError('f'))
    except TypeError:
        raised_f = True
    return raised_t == (not flag) and raised_f == flag
''',
    'effective_jobs': '''
def lemma_effective_jobs(size: int, n_jobs: int, cpu: int) -> bool:
    """
    pre: size >= 1 and n_jobs != 0 and 1 <= cpu <= 256
    post: _
    """
    _bm.mp = _MP(cpu)
    got = _bm.BaseMAB._effective_jobs(size, n_jobs)
    want = min(n_jobs, size) if n_jobs > 0 else min(max(cpu + 1 + n_jobs, 1), size)
    return 1 <= got <= size and got == want
''',
}

BY_PROPERTY = {
    'C01': ['argmax_first'],
    'C05': ['effective_jobs'],
    'C07': ['reset_all'],
    'C09': ['argmax_first'],
    'C13': ['argmin_first'],
    'C17': ['check_true_false'],
    'C20': ['argmin_first'],
}


def _module_path(pid):
    d = os.path.join(VERIF, 'evidence', 'tmp')
    os.makedirs(d, exist_ok=True)
    return os.path.join(d, 'lemmas_%s_%d.py' % (pid.lower(), os.getpid()))


def _write(pid, names):
    path = _module_path(pid)
    with open(path, 'w') as f:
        f.write(HEADER % dict(repo=os.path.realpath(REPO) + os.sep))
        for n in names:
            f.write(LEMMA_SRC[n])
    return path


def _call_reproduces(path, call):
    code = ('import importlib.util, sys\n'
            'sp = importlib.util.spec_from_file_location("lem", %r)\n'
            'L = importlib.util.module_from_spec(sp); sp.loader.exec_module(L)\n'
            'try:\n'
            '    code = compile(%r, "<call>", "eval")\n'
            'except SyntaxError as e:\n'
            '    print("cannot parse the counterexample", e); sys.exit(3)\n'
            'try:\n'
            '    ok = eval(code, vars(L))\n'
            'except Exception as e:\n'
            '    print("raised", type(e).__name__, e); sys.exit(1)\n'
            'sys.exit(0 if ok else 1)\n') % (path, call)
    cp = subprocess.run([sys.executable, '-c', code], capture_output=True, text=True, cwd=VERIF)
    return cp.returncode == 1, (cp.stdout + cp.stderr)[-400:]


def run(pid, timeout_s=25):
    """[{lemma, verdict, detail, seconds}] for the lemmas of property pid ([] if it has none)"""
    names = BY_PROPERTY.get(pid, [])
    if not names:
        return []
    path = _write(pid, names)
    out = []
    try:
        src = open(path).read().splitlines()
        t0 = time.time()
        cmd = [sys.executable, '-m', 'crosshair', 'check', '--report_all', '--per_condition_timeout', str(timeout_s), path]
        try:
            cp = subprocess.run(cmd, capture_output=True, text=True, cwd=VERIF, timeout=timeout_s * len(names) * 3 + 60)
            text = cp.stdout + cp.stderr
        except subprocess.TimeoutExpired:
            text = ''
        secs = round(time.time() - t0, 1)
        seen = {}
        for line in text.splitlines():
            m = re.match(r'^(.*?):(\d+): (info|error): (.*)$', line)
            if not m:
                continue
            ln = int(m.group(2))
            fn = None
            for k in range(ln - 1, -1, -1):
                mm = re.match(r'^def (lemma_\w+)\(', src[k]) if k < len(src) else None
                if mm:
                    fn = mm.group(1)[len('lemma_'):]
                    break
            if fn:
                seen.setdefault(fn, []).append((m.group(3), m.group(4)))
        for n in names:
            msgs = seen.get(n, [])
            verdict, detail, call = 'inconclusive', 'no verdict from crosshair', None
            for kind, msg in msgs:
                if kind == 'info' and msg.startswith('Confirmed over all paths'):
                    verdict, detail = 'confirmed', msg
                elif kind == 'error':
                    mc = re.search(r'when calling (lemma_\w+\(.*\))', msg)
                    verdict, detail = 'counterexample', msg
                    call = re.sub(r'\s*\(which .*$', '', mc.group(1)) if mc else None
                    break
                elif verdict != 'confirmed':
                    verdict, detail = 'inconclusive', msg
            rec = dict(lemma=n, engine='crosshair-tool (z3)', verdict=verdict, detail=detail[:300], seconds=secs,
                       per_condition_timeout_s=timeout_s)
            if verdict == 'counterexample':
                rep, why = _call_reproduces(path, call) if call else (False, 'could not parse the call')
                if rep:
                    rec['verdict'] = 'violation'
                    rec['call'] = call
                    rec['source'] = LEMMA_SRC[n]
                else:
                    rec['verdict'] = 'inconclusive'
                    rec['detail'] = 'counterexample did not reproduce: ' + why
            out.append(rec)
    finally:
        try:
            os.remove(path)
        except OSError:
            pass
    return out


def save_replay(pid, rec, replay_dir):
    os.makedirs(replay_dir, exist_ok=True)
    p = os.path.join(replay_dir, '%s.lemma.%s.json' % (pid, rec['lemma']))
    with open(p, 'w') as f:
        json.dump(dict(kind='crosshair', property=pid, lemma=rec['lemma'], call=rec['call'], detail=rec['detail'],
                       replay_cmd='bin/check %s --replay %s' % (pid, p)), f, indent=1)
    return p


def replay(pid, rec):
    path = _write(pid, [rec['lemma']])
    try:
        rep, why = _call_reproduces(path, rec['call'])
    finally:
        try:
            os.remove(path)
        except OSError:
            pass
    print('replay of CrossHair counterexample %s: %s' % (rec['call'], why.strip()))
    print('REPRODUCED' if rep else 'NOT REPRODUCED')
    return 1 if rep else 0
