"""sx.core - symbolic scalars on top of z3 and the path manager.

The real mabwiser code is executed on numpy arrays of dtype object whose elements are `SV`
(symbolic value = z3 Real/Int term).  Comparisons give `SB`; `bool(SB)` asks the current path
context, which forks (depth first search with deterministic re-execution of a decision prefix).
"""
import itertools
import math
import os
import time

import numpy as np
import z3

R = z3.RealSort()
I = z3.IntSort()
B = z3.BoolSort()

RLIMIT = int(os.environ.get('SX_RLIMIT', '40000000'))      # deterministic resource limit per query
TIMEOUT_MS = int(os.environ.get('SX_TIMEOUT_MS', '60000'))  # hard wall clock cap per query
_SLOWQ = float(os.environ.get('SX_SLOWQ', '0') or 0)


class PathAbort(BaseException):
    """The current path is infeasible (or was cut by an assumption)."""


class Unsupported(Exception):
    """Operation that can neither be executed symbolically nor safely concretised: harness error."""


class Budget(Exception):
    """Path budget exhausted: the exploration is incomplete (never reported as success)."""


# ------------------------------------------------------------------------------------------------
# uninterpreted functions, normal forms, purification

_UF = {}


def uf(name, *sorts):
    f = _UF.get(name)
    if f is None:
        f = _UF[name] = z3.Function(name, *sorts)
    return f


def som(e):
    """sum-of-monomials normal form: canonical for polynomials, so that equal polynomial
    arguments of uninterpreted functions become syntactically identical."""
    return z3.simplify(e, som=True, sort_sums=True)


_PUR = {}
DEFS = []   # definitions pur!k == nonlinear term, only needed to validate candidate counterexamples


def _nonlinear(t):
    todo = [t]
    seen = set()
    while todo:
        x = todo.pop()
        if x.get_id() in seen:
            continue
        seen.add(x.get_id())
        if z3.is_app(x):
            k = x.decl().kind()
            if k == z3.Z3_OP_MUL and sum(0 if (z3.is_rational_value(c) or z3.is_int_value(c)) else 1
                                          for c in x.children()) > 1:
                return True
            if k in (z3.Z3_OP_DIV, z3.Z3_OP_POWER, z3.Z3_OP_IDIV, z3.Z3_OP_MOD):
                return True
            todo.extend(x.children())
    return False


def purify(e):
    """normalise e; a non-linear result is replaced by a fresh constant (definition withheld)."""
    t = som(e)
    if not _nonlinear(t):
        return t
    key = t.get_id()
    hit = _PUR.get(key)
    if hit is None:
        k = z3.Real('pur!%d' % len(_PUR))
        hit = _PUR[key] = (k, t)
        DEFS.append(k == t)
    return hit[0]


def to_real(e):
    return z3.ToReal(e) if e.sort() == I else e


# ---- linear abstraction: every non-linear monomial / quotient is replaced by a constant (consistently), so that
# feasibility checks and first-stage obligation checks stay in linear arithmetic + uninterpreted functions.
# Replacing a term by an unconstrained constant relaxes the formula: abstract-unsat implies unsat.
_ABS = {}    # id -> (term, abstracted term)
_NLC = {}    # id of a normalised non-linear term -> (term, constant)


def _nl_const(t):
    key = t.get_id()
    hit = _NLC.get(key)
    if hit is None:
        c = z3.Const('nl!%d' % len(_NLC), t.sort())
        hit = _NLC[key] = (t, c)
    return hit[1]


def _is_num(c):
    return z3.is_rational_value(c) or z3.is_int_value(c)


def _abs_product(t):
    """t is a MUL/DIV/POWER node that is not linear: sum-of-monomials form, each monomial abstracted"""
    n = som(t)
    if not z3.is_app(n):
        return n
    k = n.decl().kind()
    if k == z3.Z3_OP_ADD:
        return z3.Sum([_abs_mono(c) for c in n.children()])
    return _abs_mono(n)


def _abs_mono(m):
    if not z3.is_app(m) or m.num_args() == 0:
        return m
    k = m.decl().kind()
    if k == z3.Z3_OP_MUL:
        nums = [c for c in m.children() if _is_num(c)]
        rest = [c for c in m.children() if not _is_num(c)]
        if len(rest) <= 1:
            inner = absterm(rest[0]) if rest else None
            if inner is None:
                return m
            return nums[0] * inner if nums else inner
        body = rest[0]
        for c in rest[1:]:
            body = body * c
        k_ = _nl_const(z3.simplify(body))
        return nums[0] * k_ if nums else k_
    if k in (z3.Z3_OP_DIV, z3.Z3_OP_POWER, z3.Z3_OP_IDIV, z3.Z3_OP_MOD):
        if k == z3.Z3_OP_DIV and _is_num(m.arg(1)):
            return absterm(m.arg(0)) / m.arg(1)
        return _nl_const(m)
    return absterm(m)


def absterm(t):
    tid = t.get_id()
    hit = _ABS.get(tid)
    if hit is not None:
        return hit[1]
    if not z3.is_app(t) or t.num_args() == 0:
        r = t
    else:
        k = t.decl().kind()
        if k == z3.Z3_OP_MUL:
            non = [c for c in t.children() if not _is_num(c)]
            if len(non) > 1:
                r = _abs_product(t)
            else:
                r = t.decl()(*[absterm(c) for c in t.children()])
        elif k in (z3.Z3_OP_DIV, z3.Z3_OP_IDIV, z3.Z3_OP_MOD):
            if _is_num(t.arg(1)):
                r = t.decl()(absterm(t.arg(0)), t.arg(1))
            else:
                r = _abs_product(t)
        elif k == z3.Z3_OP_POWER:
            r = _abs_product(t)
        else:
            ch = t.children()
            new = [absterm(c) for c in ch]
            if all(a.get_id() == b.get_id() for a, b in zip(ch, new)):
                r = t
            elif k == z3.Z3_OP_AND:
                r = z3.And(new)
            elif k == z3.Z3_OP_OR:
                r = z3.Or(new)
            elif k == z3.Z3_OP_ADD:
                r = z3.Sum(new)
            elif k == z3.Z3_OP_DISTINCT:
                r = z3.Distinct(new)
            else:
                r = t.decl()(*new)
    _ABS[tid] = (t, r)
    return r


def lift(x):
    """python / numpy scalar or SV/SB -> z3 term"""
    if isinstance(x, SV):
        return x.e
    if isinstance(x, SB):
        return z3.If(x.e, z3.IntVal(1), z3.IntVal(0))
    if isinstance(x, (bool, np.bool_)):
        return z3.IntVal(int(x))
    if isinstance(x, (int, np.integer)):
        return z3.IntVal(int(x))
    if isinstance(x, (float, np.floating)):
        f = float(x)
        if f != f or f in (float('inf'), float('-inf')):
            raise Unsupported('nan/inf literal in symbolic arithmetic')
        if f == int(f) and abs(f) < 2 ** 62:
            return z3.RealVal(int(f))
        from fractions import Fraction
        fr = Fraction(repr(f))      # the decimal literal, e.g. 0.1 -> 1/10 (floats are modelled as reals)
        return z3.Q(fr.numerator, fr.denominator)
    raise TypeError('cannot lift %r' % type(x))


def _ar(a, b):
    a, b = lift(a), lift(b)
    if a.sort() != b.sort():
        a, b = to_real(a), to_real(b)
    return a, b


# ------------------------------------------------------------------------------------------------
# path context

class Ctx:
    cur = None

    def __init__(self, prefix, pending, stats=None):
        self.prefix = prefix
        self.pending = pending
        self.trace = []
        self.pc = []          # branch conditions taken
        self.assumes = []     # scenario assumptions + stub contracts
        self.pc_lin = []      # the same, with non-linear monomials abstracted (see absterm)
        self.assumes_lin = []
        self.checks = 0
        self.solver_time = 0.0
        self.model = None
        self.names = {}
        self.vars = {}        # name -> z3 const (scenario inputs)
        self.concretized = 0
        self.script = []      # stub outputs in call order: (kind, [terms])
        self.log = []         # sampler calls recorded by SymRNG: (kind, args...)
        self.unknown_feas = 0
        self.sub_paths = 0
        self.last = None
        self.inv_log = []     # (A, inv(A)) pairs created on this path
        self.sqrt_args = []   # argument terms of the uninterpreted sqrt that take part in comparisons
        self.scratch = {}     # per-path scratch space for stubs
        self.notpos = {}
        self.pos = {}         # id -> term (the reference keeps the id from being recycled): of terms known to be > 0 on this path (cheap sign analysis)
        self.memo = {}        # branch conditions already decided on this path: id -> bool

    # -- variables
    def fresh(self, name, sort='Real'):
        k = self.names.get(name, 0)
        self.names[name] = k + 1
        n = name if k == 0 else '%s#%d' % (name, k)
        if sort == 'F64':
            c = z3.FP(n, F64)
            self.vars[n] = c
            return FV(c)
        c = z3.Real(n) if sort == 'Real' else z3.Int(n)
        self.vars[n] = c
        return SV(c)

    # -- solver
    def check(self, *extra, defs=False, timeout_ms=None, npc=None, nas=None, exact=False):
        """exact=False: linear abstraction of every assertion (unsat is conclusive, sat is a candidate);
        exact=True: the real terms (plus, with defs=True, the definitions withheld by purify)"""
        t = time.time()
        s = z3.Solver()
        s.set('timeout', timeout_ms or TIMEOUT_MS)
        s.set('rlimit', RLIMIT)
        exact = exact or defs
        A, P = (self.assumes, self.pc) if exact else (self.assumes_lin, self.pc_lin)
        fs = list(A if nas is None else A[:nas])
        fs.extend(P if npc is None else P[:npc])
        fs.extend(extra if exact else [absterm(e) for e in extra])
        if defs:
            fs.extend(DEFS)
        if fs:
            s.add(z3.And(fs) if len(fs) > 1 else fs[0])
        r = s.check()
        self.checks += 1
        self.solver_time += time.time() - t
        if _SLOWQ and time.time() - t > _SLOWQ:
            import sys
            print('SLOWQ %.1fs %s %s' % (time.time() - t, r, [str(e)[:200] for e in (extra or fs[-2:])]), file=sys.stderr,
                  flush=True)
        self.last = s
        return r

    def _sat_by_model(self, lin):
        if self.model is not None:
            ev = self.model.eval(lin, model_completion=True)
            if not z3.is_true(ev):
                self.model = None

    def assume(self, c):
        c = c.e if isinstance(c, SB) else c
        if isinstance(c, (bool, np.bool_)):
            if not c:
                raise PathAbort()
            return
        self.fact(c)

    def fact(self, c):
        """add an assumption / stub contract / lemma; the cached model is dropped if it does not satisfy it"""
        lin = absterm(c)
        self.assumes.append(c)
        self.assumes_lin.append(lin)
        self._sat_by_model(lin)

    def _push(self, cond, lin, v):
        self.trace.append(v)
        self.pc.append(cond if v else z3.Not(cond))
        self.pc_lin.append(lin if v else z3.Not(lin))

    def mark_pos(self, term):
        self.pos[term.get_id()] = term

    def is_pos(self, t, depth=0):
        tid = t.get_id()
        if tid in self.pos:
            return True
        if tid in self.notpos:
            return False
        r = self._is_pos(t, depth)
        (self.pos if r else self.notpos)[tid] = t
        return r

    def _is_pos(self, t, depth):
        if z3.is_rational_value(t) or z3.is_int_value(t):
            return (t.numerator_as_long() if z3.is_rational_value(t) else t.as_long()) > 0
        if depth > 6 or not z3.is_app(t):
            return False
        k = t.decl().kind()
        if k in (z3.Z3_OP_ADD, z3.Z3_OP_MUL):
            return all(self.is_pos(c, depth + 1) for c in t.children())
        if k == z3.Z3_OP_DIV:
            return all(self.is_pos(c, depth + 1) for c in t.children())
        if k == z3.Z3_OP_TO_REAL:
            return self.is_pos(t.arg(0), depth + 1)
        return False

    def branch(self, cond):
        cond = z3.simplify(cond)
        if z3.is_true(cond):
            return True
        if z3.is_false(cond):
            return False
        cid = cond.get_id()
        hit = self.memo.get(cid)
        if hit is not None and hit[1].eq(cond):
            return hit[0]
        r = self._branch(cond)
        self.memo[cid] = (r, cond)
        return r

    def _branch(self, cond):
        lin = absterm(cond)
        i = len(self.trace)
        if i < len(self.prefix):
            v = self.prefix[i]
            self._push(cond, lin, v)
            return v
        guess = None
        if self.model is not None:
            ev = self.model.eval(lin, model_completion=True)
            if z3.is_true(ev):
                guess = True
            elif z3.is_false(ev):
                guess = False
        if guess is None:
            r = self.check(cond)
            if r == z3.sat:
                self.model = self.last.model()
                guess = True
            else:
                r2 = self.check(z3.Not(cond))
                if r2 == z3.sat:
                    self.model = self.last.model()
                    if r == z3.unknown:
                        # cannot exclude the true branch: explore it as well (over-approximation)
                        self.unknown_feas += 1
                        self.pending.append(self.trace + [True])
                    self._push(cond, lin, False)
                    return False
                if r == z3.unsat and r2 == z3.unsat:
                    raise PathAbort()
                # unknown on at least one side and sat on none: explore both without a model
                self.unknown_feas += 1
                self.model = None
                if r2 != z3.unsat and r != z3.unsat:
                    self.pending.append(self.trace + [False])
                    guess = True
                elif r != z3.unsat:
                    guess = True
                else:
                    guess = False
                self._push(cond, lin, guess)
                return guess
        other = z3.Not(cond) if guess else cond
        r = self.check(other)
        if r != z3.unsat:
            if r == z3.unknown:
                self.unknown_feas += 1
            self.pending.append(self.trace + [not guess])
        self._push(cond, lin, guess)
        return guess

    # ---- isolated blocks: a nested exploration whose branches do not multiply with the rest of the path
    _SNAP_FIELDS = ('trace', 'pc', 'pc_lin', 'assumes', 'assumes_lin', 'script', 'log', 'inv_log', 'sqrt_args')

    def _base(self):
        b = {f: len(getattr(self, f)) for f in self._SNAP_FIELDS}
        b.update(names=dict(self.names), vars=dict(self.vars), model=self.model, memo=dict(self.memo),
                 pos=dict(self.pos), notpos=dict(self.notpos))
        return b

    def _restore(self, b):
        for f in self._SNAP_FIELDS:
            del getattr(self, f)[b[f]:]
        self.names = dict(b['names'])
        self.vars = dict(b['vars'])
        self.model = b['model']
        self.memo = dict(b['memo'])
        self.pos = dict(b['pos'])
        self.notpos = dict(b['notpos'])

    def snapshot(self, block=None):
        sn = Snap()
        for f in ('trace', 'pc', 'pc_lin', 'assumes', 'assumes_lin', 'script', 'inv_log'):
            setattr(sn, f, list(getattr(self, f)))
        sn.vars = dict(self.vars)
        sn.block = block
        return sn

    def isolated(self, fn, block, on_sub=None):
        """explore fn() as a nested decision tree from the current state; afterwards the path continues as if fn had
        not been run (fn must work on copies).  Each completed sub-path is reported to on_sub(snapshot)."""
        key = (tuple(self.trace), block)
        if key in DONE_BLOCKS:
            return
        base = self._base()
        main_prefix, main_pending = self.prefix, self.pending
        local = [list(self.trace)]
        try:
            while local:
                pre = local.pop()
                self._restore(base)
                self.prefix, self.pending = pre, local
                try:
                    fn()
                except PathAbort:
                    continue
                self.sub_paths += 1
                if on_sub is not None:
                    on_sub(self.snapshot(block))
        finally:
            self._restore(base)
            self.prefix, self.pending = main_prefix, main_pending
        DONE_BLOCKS.add(key)

    def view(self, sn):
        return _View(self, sn)

    def concretize(self, sv, lo=None, hi=None):
        """fork over the feasible integer values of sv in ascending order (deterministic replay)"""
        e = z3.simplify(sv.e if isinstance(sv, SV) else sv)
        if z3.is_int_value(e):
            return e.as_long()
        if z3.is_rational_value(e):
            if e.denominator_as_long() == 1:
                return e.numerator_as_long()
            raise Unsupported('concretising a non-integral constant %s' % e)
        self.concretized += 1
        if lo is None:
            o = z3.Optimize()
            o.set('timeout', TIMEOUT_MS)
            for a in self.assumes + self.pc:
                o.add(a)
            h = o.minimize(e)
            ro = o.check()
            if ro == z3.unknown:
                raise Unsupported('cannot bound %s for concretisation (solver returned unknown)' % e)
            if ro != z3.sat:
                raise PathAbort()
            lov = o.lower(h)
            if not (z3.is_int_value(lov) or (z3.is_rational_value(lov) and lov.denominator_as_long() == 1)):
                raise Unsupported('concretising an unbounded / non-integral value %s (lower bound %s)' % (e, lov))
            lo = lov.as_long() if z3.is_int_value(lov) else lov.numerator_as_long()
        v = lo
        while True:
            if hi is not None and v >= hi:
                raise PathAbort()
            if self.branch(e == v):
                return v
            v += 1
            if hi is None and v - lo > 4096:
                raise Unsupported('concretisation does not terminate for %s' % e)

    def choose_value(self, t):
        """n-ary decision on the value of the integral, finite double t: the feasible values are enumerated with the solver
        (block the values found so far until unsat), sorted, and explored in ascending order.  The set is a function of the
        path condition only, so re-executions of a prefix see the same decisions."""
        i = len(self.trace)
        if i < len(self.prefix):
            k = self.prefix[i]
        else:
            vals = []
            while True:
                r = self.check(*[z3.Not(z3.fpEQ(t, z3.FPVal(float(v), F64))) for v in vals], exact=True)
                if r == z3.unsat:
                    break
                if r != z3.sat:
                    raise Unsupported('solver returned unknown while enumerating the values of %s' % t)
                v = model_value(self.last.model(), t)
                if v != v or v in (float('inf'), float('-inf')) or v != int(v) or abs(v) >= 2 ** 53:
                    raise Unsupported('non-integral value %r for %s' % (v, t))
                vals.append(int(v))
                if len(vals) > 4096:
                    raise Unsupported('more than 4096 feasible values for %s' % t)
            if not vals:
                raise PathAbort()
            vals.sort()
            k = vals[0]
            for v in reversed(vals[1:]):
                self.pending.append(self.trace + [v])
        self.trace.append(k)
        cond = z3.fpEQ(t, z3.FPVal(float(k), F64))
        self.pc.append(cond)
        self.pc_lin.append(cond)
        self._sat_by_model(cond)
        return k

    def choose(self, name, values):
        """n-ary decision point on a fresh, otherwise unconstrained index variable: every value is
        feasible by construction, so no solver call is needed"""
        values = list(values)
        v = self.fresh(name, 'Int')
        if not values:
            raise PathAbort()
        i = len(self.trace)
        if i < len(self.prefix):
            idx = self.prefix[i]
        else:
            idx = 0
            for k in range(len(values) - 1, 0, -1):
                self.pending.append(self.trace + [k])
        self.trace.append(idx)
        c = v.e == idx
        self.pc.append(c)
        self.pc_lin.append(c)
        self._sat_by_model(c)
        return values[idx]


class Snap:
    """lists of a (sub-)path at its end; obligations stated on it index into these lists"""
    __slots__ = ('trace', 'pc', 'pc_lin', 'assumes', 'assumes_lin', 'script', 'inv_log', 'vars', 'block')


class _View:
    def __init__(self, ctx, sn):
        self.ctx, self.sn = ctx, sn

    def __enter__(self):
        c, sn = self.ctx, self.sn
        self.saved = {f: getattr(c, f) for f in ('trace', 'pc', 'pc_lin', 'assumes', 'assumes_lin', 'script', 'inv_log',
                                                 'vars')}
        for f in self.saved:
            setattr(c, f, getattr(sn, f))
        return c

    def __exit__(self, *a):
        for f, v in self.saved.items():
            setattr(self.ctx, f, v)


DONE_BLOCKS = set()   # (main trace at block start, block tag) of isolated blocks that were explored completely


def cur():
    c = Ctx.cur
    if c is None:
        raise Unsupported('symbolic value used outside of an exploration')
    return c


# ------------------------------------------------------------------------------------------------
# symbolic booleans and numbers

class SB:
    __slots__ = ('e',)

    def __init__(self, e):
        self.e = e

    def __bool__(self):
        return cur().branch(self.e)

    def _o(self, o):
        if isinstance(o, SB):
            return o.e
        if isinstance(o, (bool, np.bool_)):
            return z3.BoolVal(bool(o))
        return None

    def __and__(self, o):
        x = self._o(o)
        return NotImplemented if x is None else SB(z3.And(self.e, x))
    __rand__ = __and__

    def __or__(self, o):
        x = self._o(o)
        return NotImplemented if x is None else SB(z3.Or(self.e, x))
    __ror__ = __or__

    def __invert__(self):
        return SB(z3.Not(self.e))

    def __eq__(self, o):
        x = self._o(o)
        return NotImplemented if x is None else SB(self.e == x)

    def __ne__(self, o):
        x = self._o(o)
        return NotImplemented if x is None else SB(self.e != x)

    def __hash__(self):
        return hash(bool(self))

    def as_sv(self):
        return SV(z3.If(self.e, z3.IntVal(1), z3.IntVal(0)))

    def __mul__(self, o):
        if isinstance(o, np.ndarray):
            return NotImplemented
        return self.as_sv() * o
    __rmul__ = __mul__

    def __add__(self, o):
        if isinstance(o, np.ndarray):
            return NotImplemented
        return self.as_sv() + o
    __radd__ = __add__

    def __deepcopy__(self, memo):
        return self

    def __repr__(self):
        return 'SB(%s)' % self.e


def _binop(name, fn, rev=False, boolean=False):
    def op(self, o):
        if isinstance(o, np.ndarray):
            return NotImplemented
        if isinstance(o, (str, bytes, type(None), list, tuple, dict)):
            return NotImplemented
        a, b = _ar(o, self) if rev else _ar(self, o)
        return SB(fn(a, b)) if boolean else SV(fn(a, b))
    op.__name__ = name
    return op


class SV:
    __slots__ = ('e',)

    def __init__(self, e):
        self.e = e

    __add__ = _binop('__add__', lambda a, b: a + b)
    __radd__ = _binop('__radd__', lambda a, b: a + b, rev=True)
    __sub__ = _binop('__sub__', lambda a, b: a - b)
    __rsub__ = _binop('__rsub__', lambda a, b: a - b, rev=True)
    __mul__ = _binop('__mul__', lambda a, b: a * b)
    __rmul__ = _binop('__rmul__', lambda a, b: a * b, rev=True)
    __lt__ = _binop('__lt__', lambda a, b: a < b, boolean=True)
    __le__ = _binop('__le__', lambda a, b: a <= b, boolean=True)
    __gt__ = _binop('__gt__', lambda a, b: a > b, boolean=True)
    __ge__ = _binop('__ge__', lambda a, b: a >= b, boolean=True)

    def __eq__(self, o):
        if isinstance(o, (str, bytes, type(None), list, tuple, dict)):
            return False
        if isinstance(o, np.ndarray):
            return NotImplemented
        if isinstance(o, (float, np.floating)) and (o != o or o in (float('inf'), float('-inf'))):
            return False
        a, b = _ar(self, o)
        return SB(a == b)

    def __ne__(self, o):
        r = self.__eq__(o)
        if r is NotImplemented:
            return r
        if r is False:
            return True
        return SB(z3.Not(r.e))

    @staticmethod
    def _div(num, den):
        a, b = _ar(num, den)
        a, b = to_real(a), to_real(b)
        if not cur().is_pos(b) and bool(SB(b == 0)):
            raise ZeroDivisionError('symbolic division by zero')
        return SV(a / b)

    def __truediv__(self, o):
        if isinstance(o, np.ndarray):
            return NotImplemented
        return SV._div(self, o)

    def __rtruediv__(self, o):
        if isinstance(o, np.ndarray):
            return NotImplemented
        return SV._div(o, self)

    def __floordiv__(self, o):
        if isinstance(o, np.ndarray):
            return NotImplemented
        a, b = _ar(self, o)
        if a.sort() != I or b.sort() != I:
            raise Unsupported('floor division on reals')
        if not z3.is_int_value(z3.simplify(b)):
            # a symbolic divisor is enumerated (it is a job count here), so that the quotient stays linear
            b = z3.IntVal(cur().concretize(SV(b)))
        if bool(SB(b == 0)):
            raise ZeroDivisionError('symbolic integer division by zero')
        # python floor division; z3 div is euclidean: equal for positive divisors
        if not bool(SB(b > 0)):
            raise Unsupported('floor division by a negative symbolic divisor')
        return SV(a / b)

    def __mod__(self, o):
        if isinstance(o, np.ndarray):
            return NotImplemented
        a, b = _ar(self, o)
        if a.sort() != I or b.sort() != I:
            raise Unsupported('modulo on reals')
        if not z3.is_int_value(z3.simplify(b)):
            b = z3.IntVal(cur().concretize(SV(b)))
        if bool(SB(b == 0)):
            raise ZeroDivisionError('symbolic modulo by zero')
        if not bool(SB(b > 0)):
            raise Unsupported('modulo by a negative symbolic divisor')
        return SV(a % b)

    def __pow__(self, o):
        if isinstance(o, (int, np.integer)) and 0 <= int(o) <= 4:
            r = SV(z3.RealVal(1)) if self.e.sort() == R else SV(z3.IntVal(1))
            for _ in range(int(o)):
                r = r * self
            return r
        raise Unsupported('power with symbolic / large exponent')

    def __neg__(self):
        return SV(-self.e)

    def __pos__(self):
        return self

    def __abs__(self):
        return SV(z3.If(self.e >= 0, self.e, -self.e))

    def __hash__(self):
        e = z3.simplify(self.e)
        if z3.is_int_value(e) or z3.is_rational_value(e):
            return hash(float(SV(e)))
        if e.sort() != I:
            # a symbolic real as a set element / dict key: its hash would have to agree with every number it may be equal
            # to; not modelled (and enumerating its values does not terminate)
            raise Unsupported('hash of a symbolic real (set element or dictionary key)')
        return hash(cur().concretize(self))

    def __index__(self):
        return cur().concretize(self)

    def __int__(self):
        return cur().concretize(self)

    def __float__(self):
        e = z3.simplify(self.e)
        if z3.is_int_value(e):
            return float(e.as_long())
        if z3.is_rational_value(e):
            return _ratio(e.numerator_as_long(), e.denominator_as_long())
        raise Unsupported('float() of a symbolic value (would silently concretise)')

    def __bool__(self):
        return bool(self != 0)

    def __deepcopy__(self, memo):
        return self

    def __copy__(self):
        return self

    def __repr__(self):
        return 'SV(%s)' % self.e

    def __reduce__(self):
        REG.append(self.e)
        return (_unpickle_sv, (len(REG) - 1,))

    # ---- numpy object-loop method protocol
    def conjugate(self):
        return self

    def _fn(self, name):
        arg = purify(to_real(self.e))
        v = SV(uf('fn_' + name, R, R)(arg))
        c = cur()
        if name == 'exp':
            c.fact(v.e > 0)
            c.mark_pos(v.e)
        if name == 'sqrt':
            c.fact(v.e >= 0)
            c.fact((arg == 0) == (v.e == 0))
        return v

    def sqrt(self):
        e = z3.simplify(self.e)
        if z3.is_rational_value(e) or z3.is_int_value(e):
            f = float(SV(e))
            s = math.isqrt(int(f)) if f == int(f) and f >= 0 else None
            if s is not None and s * s == int(f):
                return SV(z3.RealVal(s))
        return self._fn('sqrt')

    def exp(self):
        e = z3.simplify(self.e)
        if (z3.is_rational_value(e) or z3.is_int_value(e)) and float(SV(e)) == 0.0:
            return SV(z3.RealVal(1))
        return self._fn('exp')

    def log(self):
        e = z3.simplify(self.e)
        if (z3.is_rational_value(e) or z3.is_int_value(e)) and float(SV(e)) == 1.0:
            return SV(z3.RealVal(0))
        return self._fn('log')


# ------------------------------------------------------------------------------------------------
# IEEE-754 double as a symbolic value (used where rounding is the subject: Simulator split sizes)

F64 = z3.Float64()
_RNE = z3.RNE()


def _fp(x):
    if isinstance(x, FV):
        return x.e
    if isinstance(x, (bool, np.bool_)):
        return z3.FPVal(float(int(x)), F64)
    if isinstance(x, (int, np.integer)):
        if abs(int(x)) >= 2 ** 53:
            raise Unsupported('integer too large for an exact double')
        return z3.FPVal(float(int(x)), F64)
    if isinstance(x, (float, np.floating)):
        return z3.FPVal(float(x), F64)
    return None


def _fbin(fn, rev=False, boolean=False):
    def op(self, o):
        b = _fp(o)
        if b is None:
            return NotImplemented
        x, y = (b, self.e) if rev else (self.e, b)
        return SB(fn(x, y)) if boolean else FV(fn(x, y))
    return op


class FV:
    """float64 scalar with IEEE semantics (round-to-nearest-even), e.g. a test_size; int() truncates like Python"""
    __slots__ = ('e',)

    def __init__(self, e):
        self.e = e

    __add__ = _fbin(lambda a, b: z3.fpAdd(_RNE, a, b))
    __radd__ = _fbin(lambda a, b: z3.fpAdd(_RNE, a, b), rev=True)
    __sub__ = _fbin(lambda a, b: z3.fpSub(_RNE, a, b))
    __rsub__ = _fbin(lambda a, b: z3.fpSub(_RNE, a, b), rev=True)
    __mul__ = _fbin(lambda a, b: z3.fpMul(_RNE, a, b))
    __rmul__ = _fbin(lambda a, b: z3.fpMul(_RNE, a, b), rev=True)
    __truediv__ = _fbin(lambda a, b: z3.fpDiv(_RNE, a, b))
    __rtruediv__ = _fbin(lambda a, b: z3.fpDiv(_RNE, a, b), rev=True)
    __lt__ = _fbin(z3.fpLT, boolean=True)
    __le__ = _fbin(z3.fpLEQ, boolean=True)
    __gt__ = _fbin(z3.fpGT, boolean=True)
    __ge__ = _fbin(z3.fpGEQ, boolean=True)
    __eq__ = _fbin(z3.fpEQ, boolean=True)

    def __ne__(self, o):
        r = self.__eq__(o)
        return r if r is NotImplemented else SB(z3.Not(r.e))

    def __neg__(self):
        return FV(z3.fpNeg(self.e))

    def __pow__(self, o):
        if isinstance(o, (int, np.integer)) and int(o) == 2:
            return FV(z3.fpMul(_RNE, self.e, self.e))       # pow(x, 2) is correctly rounded: the rounded product
        raise Unsupported('power of a symbolic double other than the square')

    def _to_int(self, mode):
        """the integer fpRoundToIntegral(mode, self): one n-ary decision over its feasible values (see Ctx.choose_value)"""
        t = z3.fpRoundToIntegral(mode, self.e)
        c = cur()
        c.concretized += 1
        if c.branch(z3.Or(z3.fpIsNaN(t), z3.fpIsInf(t))):
            raise ValueError('cannot convert float NaN / infinity to integer')
        return c.choose_value(t)

    def __int__(self):
        return self._to_int(z3.RTZ())

    __index__ = None

    def ceil(self):
        return self._to_int(z3.RTP())

    def floor(self):
        return self._to_int(z3.RTN())

    def __hash__(self):
        raise Unsupported('hash of a symbolic double')

    def __float__(self):
        raise Unsupported('float() of a symbolic double (would silently concretise)')

    def __deepcopy__(self, memo):
        return self

    def __copy__(self):
        return self

    def __reduce__(self):
        REG.append(self.e)
        return (_unpickle_fv, (len(REG) - 1,))

    def __repr__(self):
        return 'FV(%s)' % self.e


def _unpickle_fv(i):
    return FV(REG[i])


REG = []   # registry used to pickle / deepcopy objects that hold z3 terms (same process only)


def _unpickle_sv(i):
    return SV(REG[i])


def is_sym_scalar(x):
    return isinstance(x, (SV, SB))


def isym(x):
    if isinstance(x, (SV, SB)):
        return True
    if isinstance(x, np.ndarray) and x.dtype == object:
        return any(isinstance(v, (SV, SB)) for v in x.reshape(-1))
    if isinstance(x, (list, tuple)):
        return any(isym(v) for v in x)
    return False


def omap(f, x):
    if isinstance(x, np.ndarray):
        out = np.empty(x.shape, dtype=object)
        for idx in np.ndindex(x.shape):
            out[idx] = f(x[idx])
        return out
    return f(x)


def ite(c, a, b):
    """merge instead of fork"""
    if isinstance(c, (bool, np.bool_)):
        return a if c else b
    x, y = _ar(a, b)
    return SV(z3.If(c.e, x, y))


def smax(vals):
    vals = list(vals)
    r = vals[0]
    for v in vals[1:]:
        if is_sym_scalar(r) or is_sym_scalar(v):
            r = ite(SV(lift(v)) > r if not isinstance(v, SV) else v > r, v, r)
        else:
            r = v if v > r else r
    return r


def smin(vals):
    vals = list(vals)
    r = vals[0]
    for v in vals[1:]:
        if is_sym_scalar(r) or is_sym_scalar(v):
            r = ite(SV(lift(v)) < r if not isinstance(v, SV) else v < r, v, r)
        else:
            r = v if v < r else r
    return r


# ------------------------------------------------------------------------------------------------
# exploration

def _ratio(num, den):
    """num / den as a float, also when both are too large for a float themselves (solver models can hold huge rationals)"""
    from fractions import Fraction
    try:
        return float(Fraction(num, den))
    except OverflowError:
        return float('inf') if (num > 0) == (den > 0) else float('-inf')


def model_value(m, e):
    """python number for term e under model m (exact rationals become floats)"""
    v = m.eval(e, model_completion=True)
    if z3.is_int_value(v):
        return v.as_long()
    if z3.is_rational_value(v):
        return _ratio(v.numerator_as_long(), v.denominator_as_long())
    if z3.is_true(v):
        return True
    if z3.is_false(v):
        return False
    if z3.is_fp_value(v):
        if v.isNaN():
            return float('nan')
        if v.isInf():
            return float('-inf') if v.isNegative() else float('inf')
        r = z3.simplify(z3.fpToReal(v))
        return _ratio(r.numerator_as_long(), r.denominator_as_long())      # exact: the value is a double
    if z3.is_algebraic_value(v):
        a = v.approx(20)
        return _ratio(a.numerator_as_long(), a.denominator_as_long())
    raise Unsupported('cannot read model value %s' % v)


class PathResult:
    __slots__ = ('trace', 'obligations', 'observations', 'ctx', 'error')


def _shard_of(trace, depth, n):
    h = 0
    for x in trace[:depth]:
        h = (h * 31 + int(x) + 1) % 1000003
    return h % n


def explore(fn, max_paths=100000, on_path=None, deadline=None, shard=None, shard_depth=9):
    """DFS over the decision tree of fn(ctx).  on_path(ctx, ret) is called for every completed path.
    shard=(j, n): only the paths whose first `shard_depth` decisions hash to j are processed (the n shards
    partition the paths; prefixes shorter than shard_depth are re-executed by every shard to find the subtrees)."""
    pending = [[]]
    npaths = 0
    aborted = 0
    t0 = time.time()
    agg = dict(checks=0, solver_time=0.0, concretized=0, transitions=0, unknown_feas=0, sub_paths=0)
    complete = True
    while pending:
        if npaths >= max_paths or (deadline is not None and time.time() > deadline):
            complete = False
            break
        prefix = pending.pop()
        if shard is not None and len(prefix) >= shard_depth and _shard_of(prefix, shard_depth, shard[1]) != shard[0]:
            continue
        ctx = Ctx(prefix, pending)
        Ctx.cur = ctx
        try:
            ret = fn(ctx)
        except PathAbort:
            aborted += 1
            ret = None
            agg['checks'] += ctx.checks
            agg['solver_time'] += ctx.solver_time
            continue
        finally:
            Ctx.cur = None
        if shard is not None and _shard_of(ctx.trace, shard_depth, shard[1]) != shard[0]:
            agg['checks'] += ctx.checks
            agg['solver_time'] += ctx.solver_time
            continue
        npaths += 1
        if on_path is not None:
            Ctx.cur = ctx
            try:
                on_path(ctx, ret)
            finally:
                Ctx.cur = None
        agg['checks'] += ctx.checks
        agg['solver_time'] += ctx.solver_time
        agg['concretized'] += ctx.concretized
        agg['transitions'] += len(ctx.trace)
        agg['unknown_feas'] += ctx.unknown_feas
        agg['sub_paths'] += ctx.sub_paths
    agg['paths'] = npaths
    agg['aborted'] = aborted
    agg['complete'] = complete
    agg['pending_left'] = len(pending)
    agg['wall'] = round(time.time() - t0, 3)
    return agg
