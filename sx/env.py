"""sx.env - the scenario-facing API, with a symbolic and a concrete (replay) implementation.

A scenario is a plain function `fn(env, **params)` that builds inputs through `env`, drives the real
mabwiser API and states obligations with `env.ob(label, cond)`.  Under `SymEnv` inputs are z3 variables and
the function is explored path by path; under `ConcEnv` the very same function is run on the concrete
values of a solver model against the real library (replay / translation validation).
"""
import math

import numpy as np
import z3

from . import core
from .core import SV, SB, I, R, Unsupported, lift, to_real, model_value


class Obl:
    __slots__ = ('label', 'cond', 'kf', 'alt', 'npc', 'nas', 'snap')

    def __init__(self, label, cond, kf=None, alt=None, npc=None, nas=None):
        self.label = label
        self.cond = cond
        self.kf = kf
        self.alt = alt
        self.npc = npc      # length of the path condition / assumption list when the obligation was stated:
        self.nas = nas      # it is decided under that prefix only, so the verdict holds for every extension
        self.snap = None    # set for obligations stated inside an isolated block (snapshot of that sub-path)


def _b(c):
    """condition -> z3 Bool"""
    if isinstance(c, SB):
        return c.e
    if isinstance(c, (bool, np.bool_)):
        return z3.BoolVal(bool(c))
    if isinstance(c, z3.BoolRef):
        return c
    raise TypeError('not a condition: %r' % (c,))


def raised_by_library(e):
    """True if the exception left the scenario code, entered the repository's code and was raised there (or below)"""
    import os
    from . import install
    root = os.path.realpath(install.REPO) + os.sep
    props = os.path.join(os.path.dirname(os.path.dirname(os.path.abspath(__file__))), 'props') + os.sep
    last = None
    tb = e.__traceback__
    while tb is not None:
        fn = os.path.realpath(tb.tb_frame.f_code.co_filename)
        if fn.startswith(root):
            last = 'repo'
        elif fn.startswith(props):
            last = 'props'
        tb = tb.tb_next
    return last == 'repo'


def _isnan(x):
    return isinstance(x, (float, np.floating)) and x != x


class _Callable:
    """user function handed to the library (e.g. a binarizer): picklable / deep-copyable inside one interpreter, like a
    module-level function"""

    def __init__(self, fn):
        self._fn = fn

    def __call__(self, *args):
        return self._fn(*args)

    def __deepcopy__(self, memo):
        return self

    def __copy__(self):
        return self

    def __reduce__(self):
        core.REG.append(self)
        return (_unpickle_callable, (len(core.REG) - 1,))


def _unpickle_callable(i):
    return core.REG[i]


class SymEnv:
    sym = True

    def __init__(self, ctx):
        self.ctx = ctx
        self.obligations = []
        self.observations = []
        self.uf_calls = {}
        self.notes = {}
        self._in_block = False

    # ---- inputs
    def real(self, name, lo=None, hi=None, lo_strict=False, hi_strict=False):
        v = self.ctx.fresh(name, 'Real')
        if lo is not None:
            self.ctx.assume(v.e > lo if lo_strict else v.e >= lo)
            if (lo_strict and lo >= 0) or lo > 0:
                self.ctx.mark_pos(v.e)
        if hi is not None:
            self.ctx.assume(v.e < hi if hi_strict else v.e <= hi)
        return v

    def integer(self, name, lo=None, hi=None):
        v = self.ctx.fresh(name, 'Int')
        if lo is not None:
            self.ctx.assume(v.e >= lo)
        if hi is not None:
            self.ctx.assume(v.e <= hi)
        return v

    def binary(self, name):
        v = self.ctx.fresh(name, 'Real')
        self.ctx.assume(z3.Or(v.e == 0, v.e == 1))
        return v

    def float64(self, name, lo=None, hi=None):
        """an IEEE double (not a real): lo < value < hi, never NaN / infinite"""
        v = self.ctx.fresh(name, 'F64')
        self.ctx.assume(z3.Not(z3.Or(z3.fpIsNaN(v.e), z3.fpIsInf(v.e))))
        if lo is not None:
            self.ctx.assume(z3.fpGT(v.e, z3.FPVal(float(lo), core.F64)))
        if hi is not None:
            self.ctx.assume(z3.fpLT(v.e, z3.FPVal(float(hi), core.F64)))
        return v

    def reals(self, name, shape, floatable=False, **kw):
        a = np.empty(shape, dtype=object)
        for idx in np.ndindex(a.shape):
            a[idx] = self.real(name + '_' + '_'.join(map(str, idx)), **kw)
        if floatable:
            # the library calls .astype('float64') on these contexts (scale=True): keep them symbolic
            from .npx import symarray
            return symarray(a)
        return a

    def binaries(self, name, n):
        a = np.empty(n, dtype=object)
        for i in range(n):
            a[i] = self.binary('%s_%d' % (name, i))
        return a

    def choose(self, name, values):
        return self.ctx.choose(name, values)

    def assume(self, c):
        self.ctx.assume(_b(c) if not isinstance(c, (bool, np.bool_)) else c)

    def const(self, x):
        """a concrete number as the array element type of this mode"""
        return SV(to_real(lift(x)))

    def ufunc(self, name, nargs, lo=0, hi=1, integral=True):
        """uninterpreted user function (e.g. a binarizer) with values in {lo..hi}"""
        f = core.uf('user_' + name, *([R] * nargs + [R]))
        calls = self.uf_calls.setdefault(name, [])

        def call(*args):
            ts = [core.purify(to_real(lift(a))) if not isinstance(a, str) else
                  z3.RealVal(sum(ord(ch) * 257 ** i for i, ch in enumerate(a))) for a in args]
            out = SV(f(*ts))
            if integral:
                self.ctx.fact(z3.Or([out.e == k for k in range(lo, hi + 1)]))
            else:
                self.ctx.fact(z3.And(out.e >= lo, out.e <= hi))
            calls.append((ts, out.e))
            return out
        return _Callable(call)

    # ---- math on either kind of number
    def sqrt(self, x):
        from .npx import _sv
        return _sv(x).sqrt() if isinstance(x, (SV, SB)) else math.sqrt(x)

    def sqrt_cmp(self, x):
        """sqrt whose result takes part in comparisons (monotonicity instances are added)"""
        from .npx import sqrt_registered
        return sqrt_registered(x)

    def exp(self, x):
        from .npx import _sv
        return _sv(x).exp() if isinstance(x, (SV, SB)) else (SV(lift(x)).exp())

    def log(self, x):
        from .npx import _sv
        return _sv(x).log() if isinstance(x, (SV, SB)) else (SV(lift(x)).log())

    def abs(self, x):
        return abs(x)

    def inv(self, A):
        """matrix inverse: the same uninterpreted function the implementation's np.linalg.inv is mapped to"""
        from .npx import inv_sym
        return inv_sym(np.asarray(A, dtype=object))

    def max(self, vals):
        return core.smax(vals)

    def min(self, vals):
        return core.smin(vals)

    def ite(self, c, a, b):
        if isinstance(c, (bool, np.bool_)):
            return a if c else b
        return core.ite(SB(_b(c)), a, b)

    # ---- conditions
    true = True
    false = False

    def eq(self, a, b):
        na, nb = _isnan(a), _isnan(b)
        if na or nb:
            return bool(na and nb)
        if not isinstance(a, (SV, SB)) and not isinstance(b, (SV, SB)):
            if isinstance(a, (str, np.str_)) or isinstance(b, (str, np.str_)):
                return a == b
            return float(a) == float(b)
        if isinstance(a, (str, np.str_)) or isinstance(b, (str, np.str_)):
            return False
        x, y = core._ar(a, b)
        return SB(x == y)

    def le(self, a, b):
        r = a <= b
        return r

    def lt(self, a, b):
        return a < b

    def and_(self, *cs):
        cs = [c for c in cs]
        if all(isinstance(c, (bool, np.bool_)) for c in cs):
            return all(cs)
        return SB(z3.And([_b(c) for c in cs]))

    def or_(self, *cs):
        if all(isinstance(c, (bool, np.bool_)) for c in cs):
            return any(cs)
        return SB(z3.Or([_b(c) for c in cs]))

    def not_(self, c):
        if isinstance(c, (bool, np.bool_)):
            return not c
        return SB(z3.Not(_b(c)))

    def implies(self, a, b):
        return self.or_(self.not_(a), b)

    def decide(self, c):
        """fork on a condition (use when the scenario's control flow depends on it)"""
        return bool(c)

    # ---- results
    def ob(self, label, cond, kf=None, alt=None):
        self.obligations.append(Obl(label, cond, kf, alt, len(self.ctx.pc), len(self.ctx.assumes)))

    def observe(self, label, value):
        if not self._in_block:
            self.observations.append((label, value))

    def isolated(self, block, fn):
        """run fn() (which must work on copies of the objects under test) as a nested exploration: its branches do
        not multiply with the rest of the scenario"""
        n0 = [len(self.obligations)]

        def on_sub(sn):
            for o in self.obligations[n0[0]:]:
                if o.snap is None:
                    o.snap = sn
            n0[0] = len(self.obligations)
        def guarded():
            from .stubs import ReplayDiverged
            try:
                fn()
            except (Unsupported, core.Budget, ReplayDiverged):
                raise
            except Exception as e:
                # the library raised on inputs the scenario considers valid: candidate violation of this block
                if not raised_by_library(e):
                    raise
                self.ob('library_raised.%s' % type(e).__name__, False)
        self._in_block = True
        try:
            self.ctx.isolated(guarded, block, on_sub)
        finally:
            self._in_block = False

    @property
    def log(self):
        return self.ctx.log

    def note(self, k, v):
        self.notes[k] = v


TOL = 1e-7


class ConcEnv:
    sym = False

    def __init__(self, inputs, uf_tables=None, log=None):
        self.inputs = inputs
        self.names = {}
        self.obligations = []
        self.observations = []
        self.uf_tables = uf_tables or {}
        self._log = log if log is not None else []
        self.notes = {}
        self.only_block = None

    def _get(self, name):
        k = self.names.get(name, 0)
        self.names[name] = k + 1
        n = name if k == 0 else '%s#%d' % (name, k)
        if n not in self.inputs:
            from .stubs import ReplayDiverged
            raise ReplayDiverged('input %s not in the model' % n)
        return self.inputs[n]

    def real(self, name, lo=None, hi=None, lo_strict=False, hi_strict=False):
        return float(self._get(name))

    def integer(self, name, lo=None, hi=None):
        return int(self._get(name))

    def binary(self, name):
        return float(self._get(name))

    def float64(self, name, lo=None, hi=None):
        return float(self._get(name))

    def reals(self, name, shape, floatable=False, **kw):
        a = np.empty(shape, dtype=float)
        for idx in np.ndindex(a.shape):
            a[idx] = self.real(name + '_' + '_'.join(map(str, idx)))
        return a

    def binaries(self, name, n):
        return np.array([self.binary('%s_%d' % (name, i)) for i in range(n)], dtype=float)

    def choose(self, name, values):
        values = list(values)
        return values[int(self._get(name))]

    def assume(self, c):
        if not bool(c):
            from .stubs import ReplayDiverged
            raise ReplayDiverged('assumption violated by the concrete inputs')

    def const(self, x):
        return float(x)

    def ufunc(self, name, nargs, lo=0, hi=1, integral=True):
        table = self.uf_tables.get(name, [])

        def call(*args):
            key = [float(sum(ord(ch) * 257 ** i for i, ch in enumerate(a))) if isinstance(a, str) else float(a)
                   for a in args]
            for k, v in table:
                if all(abs(x - y) <= 1e-9 * (1 + abs(x)) for x, y in zip(k, key)):
                    return v
            return float(lo)
        return _Callable(call)

    def sqrt(self, x):
        return math.sqrt(x)
    sqrt_cmp = sqrt

    def exp(self, x):
        return math.exp(x)

    def log(self, x):
        return math.log(x)

    def abs(self, x):
        return abs(x)

    def inv(self, A):
        return np.linalg.inv(np.asarray(A, dtype=float))

    def max(self, vals):
        return max(vals)

    def min(self, vals):
        return min(vals)

    def ite(self, c, a, b):
        return a if c else b

    true = True
    false = False

    def eq(self, a, b):
        if isinstance(a, (str, np.str_)) or isinstance(b, (str, np.str_)):
            return a == b
        na, nb = _isnan(a), _isnan(b)
        if na or nb:
            return bool(na and nb)
        a = float(a)
        b = float(b)
        return abs(a - b) <= TOL * (1.0 + max(abs(a), abs(b)))

    def le(self, a, b):
        return a <= b + TOL * (1.0 + max(abs(a), abs(b)))

    def lt(self, a, b):
        return a < b

    def and_(self, *cs):
        return all(bool(c) for c in cs)

    def or_(self, *cs):
        return any(bool(c) for c in cs)

    def not_(self, c):
        return not bool(c)

    def implies(self, a, b):
        return (not bool(a)) or bool(b)

    def decide(self, c):
        return bool(c)

    def isolated(self, block, fn):
        """replay: only the block the failing obligation belongs to is executed (blocks work on copies, so skipping
        the others does not change the main run); translation validation skips all blocks"""
        if self.only_block is not None and block == self.only_block:
            fn()
            from .stubs import StopReplay
            raise StopReplay()

    def ob(self, label, cond, kf=None, alt=None):
        self.obligations.append(Obl(label, bool(cond), kf, None if alt is None else bool(alt)))

    def observe(self, label, value):
        self.observations.append((label, value))

    @property
    def log(self):
        return self._log

    def note(self, k, v):
        self.notes[k] = v
