"""sx.npx - proxies for the `np`, `math` and `cdist` globals of the mabwiser modules.

Everything is forwarded to the real module except the few functions that have no object-dtype loop
or that would concretise a symbolic value silently.
"""
import math as _math

import numpy as _np
import z3

from .core import (SV, SB, I, R, Unsupported, cur, isym, ite, lift, omap, purify, smax, smin, som, to_real, uf)


def _sv(x):
    return x if isinstance(x, SV) else SV(lift(x))


class MathProxy:
    def __getattr__(self, k):
        return getattr(_math, k)

    def floor(self, x):
        from .core import FV
        if isinstance(x, FV):
            return x.floor()
        if isinstance(x, SV):
            raise Unsupported('math.floor of a symbolic value')
        return _math.floor(x)

    def sqrt(self, x):
        return _sv(x).sqrt() if isinstance(x, (SV, SB)) else _math.sqrt(x)

    def exp(self, x):
        return _sv(x).exp() if isinstance(x, (SV, SB)) else _math.exp(x)

    def log(self, x):
        return _sv(x).log() if isinstance(x, (SV, SB)) else _math.log(x)

    def ceil(self, x):
        from .core import FV
        if isinstance(x, FV):
            return x.ceil()
        if isinstance(x, SV):
            raise Unsupported('math.ceil of a symbolic value')
        return _math.ceil(x)


def inv_sym(A):
    """uninterpreted inverse: d*d functions of the d*d entries in sum-of-monomials normal form"""
    n = A.shape[0]
    args = [purify(to_real(lift(A[i, j]))) for i in range(n) for j in range(n)]
    Bm = _np.empty((n, n), dtype=object)
    for i in range(n):
        for j in range(n):
            Bm[i, j] = SV(uf('inv%d_%d_%d' % (n, i, j), *([R] * (n * n + 1)))(*args))
    cur().inv_log.append((A.copy(), Bm))
    return Bm


def inv_contracts(ctx):
    """contract A @ inv(A) = I for every inverse created on the path (added on validation only)"""
    out = []
    for A, Bm in ctx.inv_log:
        n = A.shape[0]
        P = A.dot(Bm)
        for i in range(n):
            for j in range(n):
                out.append(lift(P[i, j]) == (1 if i == j else 0))
    return out


class LinalgProxy:
    def __getattr__(self, k):
        return getattr(_np.linalg, k)

    def inv(self, A):
        if not isym(A):
            return _np.linalg.inv(_np.asarray(A, dtype=float))
        return inv_sym(A)


class SymArray(_np.ndarray):
    """object array of symbolic scalars that survives `astype(float)` (the library converts contexts to float64 before
    handing them to the scaler); everything else is inherited from ndarray"""

    def astype(self, dtype, *a, **k):
        if dtype in ('float64', 'float', float, _np.float64):
            # the array stands for a float64 array: numpy returns the array itself when no copy is requested
            return self if k.get('copy', True) is False else self.copy()
        return _np.ndarray.astype(self, dtype, *a, **k)


def symarray(a):
    return _np.asarray(a, dtype=object).view(SymArray)


def _objarr(a):
    out = _np.empty(a.shape, dtype=object)
    out[...] = a
    return out


def sort_sym(vals):
    """insertion sort with forks (deterministic), returns list"""
    out = []
    for v in vals:
        k = len(out)
        while k > 0 and bool(v < out[k - 1]):
            k -= 1
        out.insert(k, v)
    return out


def quantile_linear(vals, q):
    """numpy's default ('linear') quantile for symbolic data and/or symbolic q"""
    s = sort_sym(list(vals))
    n = len(s)
    if n == 0:
        raise IndexError('quantile of an empty list')
    if n == 1:
        return s[0]
    h = q * (n - 1)
    for k in range(n - 1):
        if bool(h < k + 1):
            return s[k] + (s[k + 1] - s[k]) * (h - k)
    return s[n - 1]


class NPProxy:
    """stands in for the module global `np` while a symbolic exploration is running"""
    linalg = LinalgProxy()

    def __getattr__(self, k):
        return getattr(_np, k)

    # -- elementwise functions without an object loop
    def sqrt(self, x):
        return omap(lambda v: _sv(v).sqrt() if isinstance(v, (SV, SB)) else _math.sqrt(v), x) if isym(x) else _np.sqrt(x)

    def exp(self, x):
        return omap(lambda v: _sv(v).exp() if isinstance(v, (SV, SB)) else _math.exp(v), x) if isym(x) else _np.exp(x)

    def log(self, x):
        return omap(lambda v: _sv(v).log() if isinstance(v, (SV, SB)) else _math.log(v), x) if isym(x) else _np.log(x)

    def square(self, x):
        return x * x if isym(x) else _np.square(x)

    def abs(self, x):
        return omap(abs, x) if isym(x) else _np.abs(x)
    absolute = abs

    def isnan(self, x):
        if isym(x) or (isinstance(x, _np.ndarray) and x.dtype == object):
            return omap(lambda v: False if isinstance(v, (SV, SB)) else bool(_np.isnan(v)), x)
        return _np.isnan(x)

    def isfinite(self, x):
        if isym(x) or (isinstance(x, _np.ndarray) and x.dtype == object):
            return omap(lambda v: True if isinstance(v, (SV, SB)) else bool(_np.isfinite(v)), x)
        return _np.isfinite(x)

    def isclose(self, a, b, *args, **kw):
        if isym(a) or isym(b):
            raise Unsupported('np.isclose on symbolic values')
        return _np.isclose(a, b, *args, **kw)

    # -- constructors: float buffers must be able to hold symbolic scalars
    @staticmethod
    def _floatlike(dtype):
        return dtype is None or dtype is float or dtype == _np.float64 or dtype == 'float64' or dtype == 'float'

    def identity(self, n, dtype=None):
        a = _np.identity(n, dtype=int if self._floatlike(dtype) else dtype)
        return a.astype(object) if self._floatlike(dtype) else a

    def zeros(self, shape, dtype=None, **kw):
        if self._floatlike(dtype):
            return _np.zeros(shape, dtype=int).astype(object)
        return _np.zeros(shape, dtype=dtype, **kw)

    def ones(self, shape, dtype=None, **kw):
        if self._floatlike(dtype):
            return _np.ones(shape, dtype=int).astype(object)
        return _np.ones(shape, dtype=dtype, **kw)

    def empty(self, shape, dtype=None, **kw):
        if self._floatlike(dtype):
            return _np.zeros(shape, dtype=int).astype(object)
        return _np.empty(shape, dtype=dtype, **kw)

    def full(self, shape, fill, dtype=None, **kw):
        if isinstance(fill, (SV, SB)):
            a = _np.empty(shape, dtype=object)
            a[...] = fill
            return a
        return _np.full(shape, fill, dtype=dtype, **kw)

    def asarray(self, a, dtype=None, order=None, **kw):
        if isym(a):
            return _np.asarray(a, dtype=object, order=order)
        return _np.asarray(a, dtype=dtype, order=order, **kw)

    def array(self, a, dtype=None, **kw):
        if isym(a) and (dtype is None or self._floatlike(dtype)):
            return _np.array(a, dtype=object, **{k: v for k, v in kw.items() if k != 'dtype'})
        return _np.array(a, dtype=dtype, **kw)

    def fromiter(self, it, dtype, count=-1):
        vals = list(it)
        if isym(vals) or dtype == object:
            a = _np.empty(len(vals), dtype=object)
            for i, v in enumerate(vals):
                a[i] = v
            return a
        return _np.fromiter(vals, dtype, count)

    def setdiff1d(self, a, b, **kw):
        if not isym(a):
            return _np.setdiff1d(a, b, **kw)
        keep = []
        for x in _np.asarray(a, dtype=object).reshape(-1):
            if isinstance(x, (SV, SB)):
                c = z3.Or([lift(x) == lift(y) if lift(x).sort() == lift(y).sort()
                           else to_real(lift(x)) == to_real(lift(y)) for y in b])
                if not bool(SB(c)):
                    keep.append(x)
            elif x not in b:
                keep.append(x)
        return _np.array(keep, dtype=object)

    def quantile(self, a, q, **kw):
        if isym(a) or isinstance(q, (SV, SB)):
            if kw.get('axis') is not None or kw.get('method', 'linear') != 'linear':
                raise Unsupported('np.quantile variant')
            return quantile_linear(list(a), q)
        return _np.quantile(a, q, **kw)

    def cumsum(self, a, *args, **kw):
        if isym(a):
            out = _np.empty(len(a), dtype=object)
            acc = 0
            for i, v in enumerate(a):
                acc = acc + v
                out[i] = acc
            return out
        return _np.cumsum(a, *args, **kw)

    def squeeze(self, a, *args, **kw):
        return _np.squeeze(a, *args, **kw)

    # min / max of symbolic arrays are merged (If-terms) instead of forked
    def max(self, a, *args, **kw):
        if isym(a) and not args and not kw:
            return smax(_np.asarray(a, dtype=object).reshape(-1))
        return _np.max(a, *args, **kw)

    def min(self, a, *args, **kw):
        if isym(a) and not args and not kw:
            return smin(_np.asarray(a, dtype=object).reshape(-1))
        return _np.min(a, *args, **kw)
    amax = max
    amin = min

    def std(self, a, *args, **kw):
        if isym(a):
            if args or kw:
                raise Unsupported('np.std variant')
            x = _np.asarray(a, dtype=object).reshape(-1)
            mu = x.sum() / len(x)
            var = ((x - mu) * (x - mu)).sum() / len(x)
            return _sv(var).sqrt()
        return _np.std(a, *args, **kw)

    class _Random:
        def __getattr__(self, k):
            raise Unsupported('library code touched the global numpy generator np.random.%s' % k)

        def RandomState(self, seed=None):
            from .stubs import SymRandomState
            return SymRandomState(seed)
    random = _Random()


# ------------------------------------------------------------------------------------------------
# distances

def _absdiff(a, b):
    d = a - b
    if isinstance(d, SV):
        return abs(d)
    return abs(d)


def sqrt_mono_lemmas(terms):
    """monotonicity instances for the uninterpreted sqrt between the given argument terms"""
    f = uf('fn_sqrt', R, R)
    out = []
    for i in range(len(terms)):
        for j in range(i + 1, len(terms)):
            a, b = terms[i], terms[j]
            out.append((a <= b) == (f(a) <= f(b)))
    return out


def sqrt_registered(x):
    """sqrt(x) as uninterpreted function with monotonicity instances against every other registered argument"""
    arg = purify(to_real(lift(x)))
    v = SV(uf('fn_sqrt', R, R)(arg))
    c = cur()
    c.fact(v.e >= 0)
    c.fact((arg == 0) == (v.e == 0))
    known = c.sqrt_args
    if all(o.get_id() != arg.get_id() for o in known):
        for other in known:
            [c.fact(l) for l in sqrt_mono_lemmas([other, arg])]
        known.append(arg)
    return v


COSINE_SYM = [False]   # C13: cosine distances between (concrete, placeholder) arm feature vectors are symbolic


def _vec_id(v):
    return '_'.join(('%g' % float(x)).replace('-', 'm').replace('.', 'p') for x in v)


def cosine_name(a, b):
    ia, ib = sorted([_vec_id(a), _vec_id(b)])
    return 'cos_%s__%s' % (ia, ib)


def cosine_sym(XA, XB):
    """one arbitrary distance in [0, 2] per unordered pair of distinct non-zero vectors (a superset of the realisable
    cosine matrices); NaN when a vector is all zeros, 0 for identical vectors"""
    XA = _np.asarray(XA, dtype=float)
    XB = _np.asarray(XB, dtype=float)
    out = _np.empty((XA.shape[0], XB.shape[0]), dtype=object)
    c = cur()
    memo = c.scratch.setdefault('cos', {})
    for i in range(XA.shape[0]):
        for j in range(XB.shape[0]):
            a, b = XA[i], XB[j]
            if not a.any() or not b.any():
                out[i, j] = float('nan')
            elif (a == b).all():
                out[i, j] = 0.0
            else:
                n = cosine_name(a, b)
                if n not in memo:
                    v = c.fresh(n, 'Real')
                    c.fact(z3.And(v.e >= 0, v.e <= 2))
                    memo[n] = v
                out[i, j] = memo[n]
    return out


def cdist_sym(XA, XB, metric='euclidean', **kw):
    from scipy.spatial.distance import cdist as real_cdist
    if metric == 'cosine' and COSINE_SYM[0] and not (isym(XA) or isym(XB)):
        return cosine_sym(XA, XB)
    if not (isym(XA) or isym(XB)):
        return real_cdist(_np.asarray(XA, dtype=float), _np.asarray(XB, dtype=float), metric=metric, **kw)
    XA = _np.asarray(XA, dtype=object)
    XB = _np.asarray(XB, dtype=object)
    out = _np.empty((XA.shape[0], XB.shape[0]), dtype=object)
    V = None
    if metric == 'seuclidean':
        # scipy estimates the per-feature variance (ddof=1) from *all rows handed to this call* (XA stacked on XB): the
        # distance to a row depends on which other rows are passed along with it.  Zero variance is outside the model.
        if kw.get('V') is not None:
            raise Unsupported('cdist seuclidean with an explicit V')
        allrows = _np.concatenate((XA, XB))
        n = allrows.shape[0]
        if n < 2:
            raise Unsupported('seuclidean variance of a single row')
        V = []
        c = cur()
        for k in range(allrows.shape[1]):
            mu = allrows[:, k].sum() / n
            v = _sv(((allrows[:, k] - mu) * (allrows[:, k] - mu)).sum() / (n - 1))
            c.assume(v.e > 0)
            c.mark_pos(v.e)
            V.append(v)
    for i in range(XA.shape[0]):
        for j in range(XB.shape[0]):
            a, b = XA[i], XB[j]
            if metric == 'seuclidean':
                d = sqrt_registered(_sv(sum((a[k] - b[k]) * (a[k] - b[k]) / V[k] for k in range(len(a)))))
            elif metric == 'cityblock':
                d = sum(_absdiff(a[k], b[k]) for k in range(len(a)))
            elif metric == 'chebyshev':
                d = smax([_absdiff(a[k], b[k]) for k in range(len(a))])
            elif metric in ('sqeuclidean', 'euclidean'):
                d = sum((a[k] - b[k]) * (a[k] - b[k]) for k in range(len(a)))
                if metric == 'euclidean':
                    d = sqrt_registered(_sv(d))
            else:
                raise Unsupported('cdist metric %r has no exact real-arithmetic model' % metric)
            out[i, j] = d
    return out
