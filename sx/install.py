"""sx.install - import mabwiser from the repository's working tree and rebind module globals.

No source hook is needed: the stubs are bound to the module globals (`np`, `math`, `cdist`, `Parallel`,
`KMeans`, ...) after import and restored afterwards.  The library source is read from $MABWISER_REPO
(/repo) on every run; nothing is cached or translated ahead of time.
"""
import builtins
import importlib
import os
import sys

import numpy as _np

REPO = os.environ.get('MABWISER_REPO', '/repo')

MODS = {}
_ORIG = {}
_STATE = {'mode': 'real'}


def load():
    """import (once per process) the mabwiser modules from REPO"""
    if MODS:
        return MODS
    if REPO not in sys.path:
        sys.path.insert(0, REPO)
    names = ['utils', 'base_mab', 'greedy', 'ucb', 'softmax', 'thompson', 'popularity', 'rand', 'linear',
             'neighbors', 'approximate', 'clusters', 'treebandit', 'mab', 'simulator']
    for n in names:
        m = importlib.import_module('mabwiser.' + n)
        if not os.path.realpath(m.__file__).startswith(os.path.realpath(REPO) + os.sep):
            raise RuntimeError('mabwiser.%s was imported from %s, not from %s' % (n, m.__file__, REPO))
        MODS[n] = m
    for n, m in MODS.items():
        _ORIG[n] = {k: m.__dict__[k] for k in ('np', 'math', 'cdist', 'Parallel', 'delayed', 'create_rng', 'KMeans',
                                               'MiniBatchKMeans', 'DecisionTreeRegressor', 'StandardScaler', 'mp',
                                               'train_test_split', 'pd')
                    if k in m.__dict__}
    return MODS


def _sx_isinstance(obj, cls):
    """`isinstance` for mabwiser.mab: a symbolic number is accepted where an int or float is documented"""
    from .core import SV, FV
    if type(obj) is FV:
        cl = cls if isinstance(cls, tuple) else (cls,)
        return float in cl
    if type(obj) is SV:
        cl = cls if isinstance(cls, tuple) else (cls,)
        if float in cl:
            return True
        if int in cl:
            import z3
            return obj.e.sort() == z3.IntSort()
        return False
    return builtins.isinstance(obj, cls)


class _UtilsNP:
    """`np` for mabwiser.utils in concrete replays: real numpy, except that default_rng is ours"""

    def __init__(self, factory):
        class _R:
            def __getattr__(s, k):
                return getattr(_np.random, k)

            def default_rng(s, seed=None):
                return factory(seed)
        self.random = _R()

    def __getattr__(self, k):
        return getattr(_np, k)


class _CpuCount:
    def __init__(self, fn):
        self._fn = fn

    def cpu_count(self):
        return self._fn()

    def __getattr__(self, k):
        import multiprocessing
        return getattr(multiprocessing, k)


def restore():
    for n, m in MODS.items():
        for k, v in _ORIG[n].items():
            m.__dict__[k] = v
        for k in ('isinstance', 'set', 'max', 'min', 'hash'):
            m.__dict__.pop(k, None)
    _STATE['mode'] = 'real'


def install_symbolic(cpu_count=None, nondet_set=None):
    """bind the symbolic environment"""
    from . import npx, stubs
    load()
    restore()
    npp = npx.NPProxy()
    mp_ = npx.MathProxy()

    class _UtilsSym(npx.NPProxy):
        class _R:
            def default_rng(s, seed=None):
                return stubs.SymGenerator(seed)

            def RandomState(s, seed=None):
                return stubs.SymRandomState(seed)

            def __getattr__(s, k):
                from .core import Unsupported
                raise Unsupported('library code touched the global numpy generator np.random.%s' % k)
        random = _R()

    for n, m in MODS.items():
        d = m.__dict__
        if 'np' in d:
            d['np'] = _UtilsSym() if n == 'utils' else npp
        if 'math' in d:
            d['math'] = mp_
        if 'cdist' in d:
            d['cdist'] = npx.cdist_sym
        if 'Parallel' in d:
            d['Parallel'] = stubs.ParallelStub
        if 'KMeans' in d:
            d['KMeans'] = stubs.KMeansStub
        if 'MiniBatchKMeans' in d:
            d['MiniBatchKMeans'] = stubs.MiniBatchKMeansStub
        if 'DecisionTreeRegressor' in d:
            d['DecisionTreeRegressor'] = stubs.TreeStub
        if 'StandardScaler' in d:
            d['StandardScaler'] = stubs.StandardScalerStub
        if cpu_count is not None and 'mp' in d:
            d['mp'] = _CpuCount(cpu_count)
    MODS['mab'].__dict__['isinstance'] = _sx_isinstance
    MODS['simulator'].__dict__['isinstance'] = _sx_isinstance
    if nondet_set is not None:
        install_set(nondet_set)
    _STATE['mode'] = 'sym'


def install_set(cls):
    """bind the builtin name `set` of the mabwiser modules (PYTHONHASHSEED model)"""
    for n in ('mab', 'approximate', 'treebandit', 'base_mab', 'neighbors', 'clusters', 'linear', 'utils'):
        MODS[n].__dict__['set'] = cls


def install_hash(fn):
    """bind the builtin name `hash` of the mabwiser modules (PYTHONHASHSEED model)"""
    for n in MODS:
        MODS[n].__dict__['hash'] = fn


def install_concrete(level, script=None, log=None):
    """replay environment.  level 1: the real library (the generator only records its calls);
    level 2: real mabwiser code with the generator / k-means / trees scripted from the solver's model"""
    from . import stubs
    load()
    restore()
    if log is None:
        log = []
    stubs.CURRENT_LOG[0] = log
    if level == 1:
        MODS['utils'].__dict__['np'] = _UtilsNP(lambda seed: stubs.RecordingGenerator(seed, log))
    else:
        sc = stubs.Script(script or [])
        stubs.SCRIPT[0] = sc
        MODS['utils'].__dict__['np'] = _UtilsNP(lambda seed: stubs.ScriptedGenerator(seed, sc, log))
        for n, m in MODS.items():
            d = m.__dict__
            if 'KMeans' in d:
                d['KMeans'] = stubs.ScriptedKMeans
            if 'MiniBatchKMeans' in d:
                d['MiniBatchKMeans'] = stubs.ScriptedMiniBatchKMeans
            if 'DecisionTreeRegressor' in d:
                d['DecisionTreeRegressor'] = stubs.ScriptedTree
    _STATE['mode'] = 'conc%d' % level
    return log
