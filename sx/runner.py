"""sx.runner - explores the scenarios of a property, discharges obligations, replays counterexamples,
matches known findings and writes the evidence file.

exit 0: every obligation within the stated bounds is unsat (or matches a listed known finding)
exit 1: a counterexample was reproduced against the real library and is not a listed finding
exit 2: inconclusive / harness error (budget exhausted, `unknown`, unsupported operation,
        candidate that does not reproduce, translation validation mismatch)
"""
import argparse
import fnmatch
import importlib
import json
import multiprocessing as mp
import os
import random
import subprocess
import sys
import time
import traceback

VERIF = os.path.dirname(os.path.dirname(os.path.abspath(__file__)))
EVID = os.path.join(VERIF, 'evidence')


class Scenario:
    def __init__(self, name, fn, params=None, max_paths=20000, weight=1.0, setup=None, twin=False, bounds=None,
                 shards=1):
        self.name = name
        self.fn = fn
        self.params = params or {}
        self.max_paths = max_paths
        self.weight = weight          # relative cost estimate, used for scheduling only
        self.setup = setup or {}      # tree_leaves, par_other, par_sharedmem, cpu_count, nondet_set
        self.twin = twin              # reachability twin: its final obligation is False and must be violated
        self.bounds = bounds or {}
        self.shards = shards          # the path tree is partitioned over this many worker tasks


def tier_scenarios(prop, tier):
    """scenario list of a tier.  thorough = every quick scenario (unchanged) + the deeper scenarios; a deeper scenario that
    re-uses the name of a quick one with other parameters is renamed <name>.deep"""
    if tier != 'thorough':
        return prop.scenarios(tier)
    quick = prop.scenarios('quick')
    qp = {s.name: s for s in quick}
    out = []
    for s in prop.scenarios('thorough'):
        if s.name in qp:
            if repr(sorted(s.params.items(), key=str)) == repr(sorted(qp[s.name].params.items(), key=str)):
                continue
            s.name = s.name + '.deep'
        out.append(s)
    return quick + out


def load_prop(pid):
    if VERIF not in sys.path:
        sys.path.insert(0, VERIF)
    return importlib.import_module('props.%s' % pid.lower())


# ------------------------------------------------------------------------------------------------
# coverage of mabwiser functions executed under symbolic values

_FUNCS = set()


def _start_monitor(repo):
    try:
        mon = sys.monitoring
    except AttributeError:
        return
    tool = mon.PROFILER_ID
    try:
        mon.use_tool_id(tool, 'sx')
    except ValueError:
        return
    root = os.path.realpath(os.path.join(repo, 'mabwiser')) + os.sep

    def on_start(code, offset):
        fn = code.co_filename
        if fn.startswith(root) or os.path.realpath(fn).startswith(root):
            _FUNCS.add('%s:%s' % (os.path.basename(fn), code.co_qualname))
        return mon.DISABLE
    mon.register_callback(tool, mon.events.PY_START, on_start)
    mon.set_events(tool, mon.events.PY_START)


# ------------------------------------------------------------------------------------------------
# worker: one scenario

def _apply_setup(setup):
    from . import install, stubs
    stubs.TREE_LEAVES[0] = setup.get('tree_leaves', 2)
    stubs.PAR_MODE['other'] = setup.get('par_other', 'seq')
    stubs.PAR_MODE['sharedmem'] = setup.get('par_sharedmem', 'seq')
    from . import npx as _npx
    _npx.COSINE_SYM[0] = bool(setup.get('cosine_sym'))
    return setup


def _conc_run(scn, level, rec):
    """run the scenario concretely (real mabwiser code) on the recorded model values"""
    from . import install, stubs
    from .env import ConcEnv
    log = []
    install.install_concrete(level, script=rec.get('script'), log=log)
    stubs.PAR_MODE['order_chooser'] = None
    env = ConcEnv(rec['inputs'], rec.get('uf_tables'), log)
    env.only_block = rec.get('block')
    if scn.setup.get('conc_setup'):
        scn.setup['conc_setup'](env)
    err = None
    try:
        scn.fn(env, **scn.params)
    except stubs.StopReplay:
        pass
    except stubs.ReplayDiverged as e:
        err = 'diverged: %s' % e
    except Exception as e:   # a crash of the real library on the concrete input is itself a result
        err = 'exception: %s: %s' % (type(e).__name__, e)
        env.notes['traceback'] = traceback.format_exc()
    finally:
        install.restore()
    return env, err


def _raised_by_library(e):
    from .env import raised_by_library
    return raised_by_library(e)


def _jsonable(x):
    import numpy as np
    if isinstance(x, (np.integer,)):
        return int(x)
    if isinstance(x, (np.floating,)):
        return float(x)
    if isinstance(x, np.ndarray):
        return [_jsonable(v) for v in x.tolist()]
    if isinstance(x, (list, tuple)):
        return [_jsonable(v) for v in x]
    if isinstance(x, dict):
        return {str(k): _jsonable(v) for k, v in x.items()}
    if isinstance(x, (int, float, str, bool)) or x is None:
        return x
    return repr(x)


def run_scenario(task):
    pid, sname, tier, seed, budget_s = task[:5]
    shard = task[5] if len(task) > 5 else None
    t0 = time.time()
    res = dict(scenario=sname, paths=0, transitions=0, checks=0, solver_time=0.0, obligations=0, discharged=0,
               discharged_batch=0, discharged_defs=0, candidates=0, violations=[], known=[], inconclusive=[],
               validated=0, tv_skipped=0, tv_mismatch=[], samples=[], functions=[], complete=False, error=None,
               twin=False, twin_ok=None, cache_hits=0, sub_paths=0, unknown_feas=0, concretized=0, aborted=0, labels={}, bounds={},
               xcheck=dict(checked=0, agree=0, unknown=0, disagree=0))
    try:
        import z3
        from . import core, install, stubs, npx
        from .env import SymEnv, _b
        install.load()
        _start_monitor(install.REPO)
        for cache in (core._ABS, core._NLC, core._PUR, core.DONE_BLOCKS):
            cache.clear()
        del core.DEFS[:]
        prop = load_prop(pid)
        scn = [s for s in tier_scenarios(prop, tier) if s.name == sname][0]
        res['twin'] = scn.twin
        res['bounds'] = scn.bounds
        rnd = random.Random((seed, sname).__repr__())
        res['shard'] = shard
        known = load_known()
        _apply_setup(scn.setup)
        state = {'stop': False, 'nviol': 0}
        proved = set()
        kf_confirmed = set()
        xcap = int(os.environ.get('SX_XCHECK', '4' if tier == 'quick' else '25'))
        xevery = max(1, int(os.environ.get('SX_XCHECK_EVERY', '37')))
        tv_every = max(1, int(scn.setup.get('tv_every', 7)))
        tv_cap = int(scn.setup.get('tv_cap', 6))

        def wrapped(ctx):
            env = SymEnv(ctx)
            if scn.setup.get('sym_setup'):
                scn.setup['sym_setup'](env)
            install.install_symbolic(cpu_count=scn.setup.get('cpu_count_fn') and (lambda: scn.setup['cpu_count_fn'](env)),
                                     nondet_set=scn.setup.get('nondet_set_fn') and scn.setup['nondet_set_fn'](env))
            if scn.setup.get('sym_post'):
                scn.setup['sym_post'](env)
            if scn.setup.get('par_sharedmem') == 'order':
                import itertools

                def chooser(n, _env=env):
                    perms = list(itertools.permutations(range(n)))
                    return list(_env.choose('task_order', perms))
                stubs.PAR_MODE['order_chooser'] = chooser
            try:
                scn.fn(env, **scn.params)
            except (core.Unsupported, core.Budget, stubs.ReplayDiverged):
                raise
            except Exception as e:
                # an exception that propagated out of the library under test on inputs the scenario considers valid is
                # a candidate violation (confirmed only if the real library raises it on the concrete inputs as well)
                if not _raised_by_library(e):
                    raise
                env.ob('library_raised.%s' % type(e).__name__, False)
                env.notes['exception'] = '%s: %s' % (type(e).__name__, e)
            return env

        def record(ctx, env, model, label, block=None):
            inputs = {n: core.model_value(model, v) for n, v in ctx.vars.items()}
            script = [[k, [core.model_value(model, t) for t in ts]] for k, ts in ctx.script]
            tables = {}
            for name, calls in env.uf_calls.items():
                tables[name] = [[[core.model_value(model, a) for a in args], core.model_value(model, out)]
                                for args, out in calls]
            return dict(property=pid, scenario=sname, tier=tier, label=label, inputs=inputs, script=script,
                        uf_tables=tables, trace=[b if isinstance(b, bool) else int(b) for b in ctx.trace],
                        block=block)

        def try_replay(ctx, env, ob, model):
            """returns (level, record) if the failing obligation reproduces on the real library"""
            rec = record(ctx, env, model, ob.label, ob.snap.block if ob.snap is not None else None)
            core.Ctx.cur = None
            try:
                for level in ((1,) if ctx.scratch.get('level1_only') else (1, 2)):
                    cenv, err = _conc_run(scn, level, rec)
                    failed = [o for o in cenv.obligations if o.label == ob.label and not o.cond]
                    if ob.label.startswith('library_raised.'):
                        # only a crash of the *real* library (real generator, estimators, joblib) counts: at level 2 the
                        # exception could be an artefact of a scripted stand-in
                        if level == 1 and err and err.startswith('exception: %s' % ob.label.split('.', 1)[1]):
                            rec['level'] = level
                            rec['crash'] = err
                            return level, rec
                        continue
                    if failed:
                        rec['level'] = level
                        return level, rec
            finally:
                core.Ctx.cur = ctx
                _apply_setup(scn.setup)
            return None, rec

        def on_path(ctx, env):
            res['paths'] += 1
            obs = env.obligations
            if scn.twin:
                # reachability witness: the path reached its end with a satisfiable path condition
                if ctx.check(exact=True, timeout_ms=20000) == z3.sat:
                    res['twin_ok'] = True
                    raise core.Budget('twin reached')
                return
            if not obs:
                return
            conds = [_b(o.cond) for o in obs]
            res['obligations'] += len(obs)
            for o in obs:
                res['labels'][o.label.split('[')[0]] = res['labels'].get(o.label.split('[')[0], 0) + 1
            # an obligation is decided under the path prefix at which it was stated; the verdict is cached per
            # (prefix, label) because deterministic re-execution reaches the same prefix on every extension
            groups = {}
            snaps = {}
            not_proved = set()
            for o, c in zip(obs, conds):
                tr = o.snap.trace if o.snap is not None else ctx.trace
                key = (tuple(tr[:o.npc]), o.label)
                if key in proved:
                    res['discharged'] += 1
                    res['cache_hits'] += 1
                    continue
                sid = id(o.snap) if o.snap is not None else None
                snaps[sid] = o.snap
                groups.setdefault((sid, o.npc, o.nas), []).append((o, c, key))
            for (sid, npc, nas), items in groups.items():
                if sid is None:
                    process_group(ctx, env, items, npc, nas, not_proved)
                else:
                    with ctx.view(snaps[sid]):
                        process_group(ctx, env, items, npc, nas, not_proved)
            finish_path(ctx, env, obs, conds, not_proved)

        def process_group(ctx, env, items, npc, nas, not_proved):
            if True:
                cs = [c for _, c, _ in items]
                r = ctx.check(z3.Not(z3.And(cs)) if len(cs) > 1 else z3.Not(cs[0]), npc=npc, nas=nas)
                if r == z3.unsat:
                    res['discharged'] += len(items)
                    res['discharged_batch'] += 1
                    for _, _, key in items:
                        proved.add(key)
                    # second solver: a sample of the discharged obligation queries is exported as SMT-LIB2 and decided
                    # again by cvc5; "sat" there against z3's "unsat" is a harness error
                    nb = res['discharged_batch']
                    if res['xcheck']['checked'] < xcap and (nb == 1 or nb % xevery == 0):
                        v = cvc5_verdict(ctx.last)
                        xc = res['xcheck']
                        xc['checked'] += 1
                        if v == 'unsat':
                            xc['agree'] += 1
                        elif v == 'sat':
                            xc['disagree'] += 1
                            res['error'] = 'solver disagreement: z3 unsat, cvc5 sat on obligation %s' % items[0][0].label
                        else:
                            xc['unknown'] += 1
                    return
                for o, c, key in items:
                    r = ctx.check(z3.Not(c), npc=npc, nas=nas)
                    if r == z3.unsat:
                        res['discharged'] += 1
                        proved.add(key)
                        continue
                    # candidate counterexample of the abstracted formula.  First try to confirm it cheaply: a model in
                    # generic position (inputs pairwise distinct and away from 0, 1, -1) is replayed on the real library
                    res['candidates'] += 1
                    not_proved.add(o.label)
                    reals_ = [v for v in ctx.vars.values() if v.sort() == core.R]
                    generic = z3.Distinct(reals_ + [z3.RealVal(0), z3.RealVal(1), z3.RealVal(-1)]) if reals_ else None
                    models = []
                    for full in (True, False):
                        kw = {} if full else dict(npc=npc, nas=nas)
                        if generic is not None and ctx.check(z3.Not(c), generic, timeout_ms=10000, **kw) == z3.sat:
                            models.append(ctx.last.model())
                            break
                        if ctx.check(z3.Not(c), timeout_ms=10000, **kw) == z3.sat:
                            models.append(ctx.last.model())
                            break
                    handled = False
                    kfid = o.kf if (o.kf and o.kf in known) else None
                    if kfid and kfid in kf_confirmed and o.alt is not None:
                        # the listed finding has already been reproduced in this scenario: the deviation on this path is
                        # accepted iff the bug-compatible specification holds here
                        ra = ctx.check(z3.Not(_b(o.alt)), npc=npc, nas=nas)
                        if ra != z3.unsat:
                            ra = ctx.check(z3.Not(_b(o.alt)), defs=True, timeout_ms=20000, npc=npc, nas=nas)
                        if ra == z3.unsat:
                            res['known'].append(dict(kf=kfid, label=o.label))
                            continue

                    def attempt(model):
                        level, rec = try_replay(ctx, env, o, model)
                        if level is None:
                            return False
                        kf = o.kf if (o.kf and o.kf in known) else None
                        if kf:
                            ra = ctx.check(z3.Not(_b(o.alt)), npc=npc, nas=nas) if o.alt is not None else z3.unsat
                            if ra != z3.unsat:
                                ra = ctx.check(z3.Not(_b(o.alt)), defs=True, timeout_ms=20000, npc=npc, nas=nas)
                            if ra == z3.unsat:
                                res['known'].append(dict(kf=kf, label=o.label))
                                kf_confirmed.add(kf)
                                return True
                            rec['note'] = 'deviates from the listed finding %s as well' % kf
                        state['nviol'] += 1
                        rec['path'] = _save_replay(pid, sname, o.label, rec, state['nviol'] + 100 * (shard[0] if shard else 0))
                        res['violations'].append(dict(label=o.label, level=level, replay=rec['path'],
                                                      crash=rec.get('crash')))
                        return True
                    for mdl in models:
                        if attempt(mdl):
                            handled = True
                            break
                    if handled:
                        continue
                    # stage B: the real terms, with the withheld definitions and the stub contracts
                    extra = list(npx.inv_contracts(ctx))
                    rb = ctx.check(z3.Not(c), *extra, defs=True, timeout_ms=20000, npc=npc, nas=nas)
                    if rb == z3.unsat:
                        res['discharged'] += 1
                        res['discharged_defs'] += 1
                        res['candidates'] -= 1
                        not_proved.discard(o.label)
                        proved.add(key)
                        continue
                    tries = 0
                    model = ctx.last.model() if rb == z3.sat else None
                    while model is not None and tries < 3 and not handled:
                        tries += 1
                        if attempt(model):
                            handled = True
                            break
                        block = z3.Or([v != model.eval(v, model_completion=True) for v in ctx.vars.values()]) \
                            if ctx.vars else z3.BoolVal(False)
                        rn = ctx.check(z3.Not(c), block, *extra, defs=True, timeout_ms=20000, npc=npc, nas=nas)
                        model = ctx.last.model() if rn == z3.sat else None
                    if not handled:
                        # solver-guided concretisation: non-linear candidates (products of contexts, variances, ...) that
                        # z3 cannot complete are retried with the context-like inputs fixed to pairwise distinct small
                        # rationals, which leaves a linear problem in the remaining inputs (rewards, radius, hyper-parameters)
                        cvars = [v for n, v in sorted(ctx.vars.items()) if v.sort() == core.R and n[:1] in ('x', 'q')]
                        rr = random.Random('%s/%s' % (sname, o.label))
                        for trial in range(6 if cvars else 0):
                            vals = rr.sample(range(-9, 10), min(len(cvars), 19))
                            eqs = [v == z3.Q(vals[i % len(vals)], (1, 2, 3, 7, 10, 13)[trial % 6]) for i, v in enumerate(cvars)]
                            rn = ctx.check(z3.Not(c), *eqs, *extra, defs=True, timeout_ms=8000, npc=npc, nas=nas)
                            if rn == z3.sat and attempt(ctx.last.model()):
                                handled = True
                                break
                    if not handled:
                        res['inconclusive'].append(dict(
                            label=o.label, verdict=str(rb),
                            reason='candidate counterexample did not reproduce on the real library'
                            if (models or rb == z3.sat) else 'solver returned unknown'))
                if state['nviol'] >= 3 or len(res['inconclusive']) >= 5:
                    raise core.Budget('stopping scenario after repeated failures')
        def finish_path(ctx, env, obs, conds, not_proved):
            # samples + translation validation
            if len(res['samples']) < 2:
                res['samples'].append(dict(scenario=sname, decisions=len(ctx.trace),
                                           path_condition=[str(z3.simplify(p))[:160] for p in ctx.pc[:6]],
                                           obligations=[o.label for o in obs[:8]],
                                           example_obligation=str(z3.simplify(conds[0]))[:300]))
            if (res['paths'] % tv_every == 1 or tv_every == 1) and res['validated'] + res['tv_skipped'] < tv_cap \
                    and not scn.setup.get('no_tv'):
                validate(ctx, env, not_proved)

        def validate(ctx, env, not_proved=()):
            if any(o.label.startswith('library_raised.') for o in env.obligations):
                res['tv_skipped'] += 1
                return
            numeric_uf = any(k in str(d.name()) for d in _decls(ctx) for k in ('fn_', 'inv'))
            # the concrete run uses floats: sample the path away from its boundaries (every comparison holds with a margin);
            # paths that force an exact equality between symbolic terms cannot be validated in floating point
            margin = _margins(ctx.pc)
            if margin is None:
                res['tv_skipped'] += 1
                return
            r = ctx.check(*margin, exact=True, timeout_ms=5000)
            if r != z3.sat:
                res['tv_skipped'] += 1
                return
            model = ctx.last.model()
            rec = record(ctx, env, model, None)
            core.Ctx.cur = None
            try:
                cenv, err = _conc_run(scn, 2, rec)
            finally:
                core.Ctx.cur = ctx
                _apply_setup(scn.setup)
            if err:
                res['tv_skipped'] += 1
                if err.startswith('exception'):
                    res['tv_mismatch'].append(dict(kind='exception', detail=err, inputs=_jsonable(rec['inputs'])))
                return
            bad = [o.label for o in cenv.obligations if not o.cond and not o.kf and o.label not in not_proved]
            mism = []
            if not numeric_uf:
                if len(cenv.observations) != len(env.observations):
                    mism.append('observation count %d vs %d' % (len(cenv.observations), len(env.observations)))
                for (l1, v1), (l2, v2) in zip(env.observations, cenv.observations):
                    if _has_numeric_uf(v1):
                        continue      # the model gives inverse / sqrt / exp / withheld products arbitrary values
                    sv = _val(model, v1)
                    if not _close(sv, v2):
                        mism.append('%s: symbolic %r real %r' % (l1, sv, v2))
                if bad:
                    mism.append('obligations false on the real library although unsat symbolically: %s' % bad[:4])
            if mism:
                res['tv_mismatch'].append(dict(kind='mismatch', detail=mism[:6], inputs=_jsonable(rec['inputs'])))
            elif numeric_uf:
                res['tv_skipped'] += 1
            else:
                res['validated'] += 1

        def _has_numeric_uf(v):
            import numpy as np
            if isinstance(v, (core.SV, core.SB)):
                stack, ids = [core.lift(v)], set()
                while stack:
                    t = stack.pop()
                    if t.get_id() in ids:
                        continue
                    ids.add(t.get_id())
                    if z3.is_app(t):
                        nm = str(t.decl().name())
                        if t.decl().kind() == z3.Z3_OP_UNINTERPRETED and (
                                (t.num_args() > 0 and ('fn_' in nm or nm.startswith('inv'))) or nm.startswith(('pur!', 'nl!'))):
                            return True
                        stack.extend(t.children())
                return False
            if isinstance(v, np.ndarray):
                return any(_has_numeric_uf(x) for x in v.reshape(-1))
            if isinstance(v, (list, tuple)):
                return any(_has_numeric_uf(x) for x in v)
            if isinstance(v, dict):
                return any(_has_numeric_uf(x) for x in v.values())
            return False

        def _decls(ctx):
            seen = {}
            todo = list(ctx.pc)
            for e in todo[:]:
                pass
            stack = list(ctx.pc) + [t for _, ts in ctx.script for t in ts]
            ids = set()
            while stack:
                t = stack.pop()
                if t.get_id() in ids:
                    continue
                ids.add(t.get_id())
                if z3.is_app(t):
                    if t.decl().kind() == z3.Z3_OP_UNINTERPRETED and t.num_args() > 0:
                        seen[t.decl().name()] = t.decl()
                    stack.extend(t.children())
            return list(seen.values())

        def _val(model, v):
            import numpy as np
            if isinstance(v, (core.SV, core.SB)):
                return core.model_value(model, core.lift(v))
            if isinstance(v, np.ndarray):
                return [_val(model, x) for x in v.reshape(-1)]
            if isinstance(v, (list, tuple)):
                return [_val(model, x) for x in v]
            if isinstance(v, dict):
                return {k: _val(model, x) for k, x in v.items()}
            return v

        def _close(a, b):
            import numpy as np
            if isinstance(b, np.ndarray):
                b = b.reshape(-1).tolist()
            if isinstance(a, (list, tuple)):
                return isinstance(b, (list, tuple)) and len(a) == len(b) and all(_close(x, y) for x, y in zip(a, b))
            if isinstance(a, dict):
                return isinstance(b, dict) and list(map(str, a.keys())) == list(map(str, b.keys())) and \
                    all(_close(x, y) for x, y in zip(a.values(), b.values()))
            if isinstance(a, str) or isinstance(b, str):
                return str(a) == str(b)
            if a is None or b is None:
                return a is b
            fa, fb = float(a), float(b)
            if fa != fa or fb != fb:
                return fa != fa and fb != fb
            return abs(fa - fb) <= 1e-6 * (1 + max(abs(fa), abs(fb)))

        deadline = t0 + budget_s if budget_s else None
        try:
            agg = core.explore(wrapped, max_paths=scn.max_paths, on_path=on_path, deadline=deadline, shard=shard)
            res['complete'] = agg['complete']
        except core.Budget as e:
            agg = None
            res['complete'] = False
            res['error'] = None if (res['violations'] or res['twin_ok']) else (res['error'] or 'stopped: %s' % e)
        if agg:
            for k in ('transitions', 'checks', 'solver_time', 'unknown_feas', 'concretized', 'aborted'):
                res[k] = agg[k]
            res['sub_paths'] = agg.get('sub_paths', 0)
            if not agg['complete']:
                res['error'] = 'path budget exhausted after %d paths (%d pending)' % (agg['paths'], agg['pending_left'])
    except BaseException as e:   # harness error
        res['error'] = '%s: %s' % (type(e).__name__, e)
        res['traceback'] = traceback.format_exc()[-3000:]
    finally:
        try:
            from . import install
            install.restore()
        except Exception:
            pass
    res['functions'] = sorted(_FUNCS)
    res['wall'] = round(time.time() - t0, 2)
    res['solver_time'] = round(res['solver_time'], 2)
    return res


def cvc5_verdict(z3solver, tlimit_ms=4000):
    """decide the assertions of a z3 solver object with cvc5 (SMT-LIB2 export); 'sat' / 'unsat' / 'unknown'"""
    try:
        import cvc5
        txt = z3solver.to_smt2()
        slv = cvc5.Solver()
        slv.setOption('tlimit-per', str(tlimit_ms))
        slv.setLogic('ALL')
        ps = cvc5.InputParser(slv)
        ps.setStringInput(cvc5.InputLanguage.SMT_LIB_2_6, txt, 'obligation')
        sm = ps.getSymbolManager()
        verdict = 'unknown'
        while True:
            c = ps.nextCommand()
            if c.isNull():
                break
            out = str(c.invoke(slv, sm)).strip()
            if '(error' in out:
                return 'unknown'
            if out in ('sat', 'unsat', 'unknown'):
                verdict = out
        return verdict
    except Exception:
        return 'unknown'


def _margins(pc, eps=None):
    """for translation validation: strengthen each arithmetic branch literal by a margin; None if the path is a boundary"""
    import z3
    eps = z3.Q(1, 1000) if eps is None else eps
    out = []

    def arith(t):
        return z3.is_app(t) and t.num_args() == 2 and (z3.is_arith(t.arg(0)) and z3.is_arith(t.arg(1)))
    for lit in pc:
        neg = False
        t = lit
        while z3.is_not(t):
            neg = not neg
            t = t.arg(0)
        if not arith(t):
            continue
        a, b = t.arg(0), t.arg(1)
        if a.sort() != b.sort():
            continue
        if z3.is_int(a):
            continue
        k = t.decl().kind()
        if k == z3.Z3_OP_EQ:
            if not neg:
                if not (z3.is_const(a) and (z3.is_rational_value(b))) and not z3.is_rational_value(a):
                    return None
                continue
            out.append(z3.Or(a >= b + eps, a <= b - eps))
        elif k == z3.Z3_OP_LE:
            out.append(a >= b + eps if neg else a <= b - eps)
        elif k == z3.Z3_OP_LT:
            out.append(a >= b + eps if neg else a <= b - eps)
        elif k == z3.Z3_OP_GE:
            out.append(a <= b - eps if neg else a >= b + eps)
        elif k == z3.Z3_OP_GT:
            out.append(a <= b - eps if neg else a >= b + eps)
    return out


def _save_replay(pid, sname, label, rec, k):
    d = os.environ.get('SX_REPLAY_DIR') or os.path.join(EVID, 'replays')
    os.makedirs(d, exist_ok=True)
    safe = ''.join(ch if ch.isalnum() or ch in '._-' else '_' for ch in '%s.%s.%s' % (pid, sname, label))[:150]
    p = os.path.join(d, '%s.%d.json' % (safe, k))
    rec = dict(rec)
    rec['replay_cmd'] = 'bin/check %s --replay %s' % (pid, p)
    with open(p, 'w') as f:
        json.dump(_jsonable(rec), f, indent=1)
    return p


def load_known():
    p = os.path.join(VERIF, 'known_findings.json')
    if not os.path.exists(p):
        return {}
    with open(p) as f:
        d = json.load(f)
    return {k['id']: k for k in d.get('findings', []) if k.get('status', 'open') == 'open'}


# ------------------------------------------------------------------------------------------------
# replay of a recorded counterexample against the real library (fresh process)

def replay(pid, path):
    with open(path) as f:
        rec = json.load(f)
    if rec.get('kind') == 'crosshair':
        from . import lemmas as _lem
        return _lem.replay(pid, rec)
    from . import install
    install.load()
    prop = load_prop(pid)
    scn = [s for s in tier_scenarios(prop, rec.get('tier', 'quick')) + tier_scenarios(prop, 'thorough')
           if s.name == rec['scenario']][0]
    _apply_setup(scn.setup)
    rec['script'] = [(k, v) for k, v in rec.get('script', [])]
    level = rec.get('level', 1)
    cenv, err = _conc_run(scn, level, rec)
    failed = [o for o in cenv.obligations if o.label == rec['label'] and not o.cond]
    print('replay of %s / %s at level %d (%s)' % (rec['scenario'], rec['label'], level,
                                                   'real library' if level == 1 else
                                                   'real mabwiser code, generator/sklearn outputs scripted from the model'))
    print('inputs:', json.dumps(rec['inputs'])[:2000])
    if err:
        print('run ended with:', err)
    for o in cenv.obligations:
        if not o.cond:
            print('  FAILED obligation:', o.label)
    if 'detail' in cenv.notes:
        print('detail:', cenv.notes['detail'])
    if failed or (err and rec.get('crash') and err.split(':')[1].strip() == rec['crash'].split(':')[1].strip()):
        print('REPRODUCED')
        return 1
    print('NOT REPRODUCED')
    return 0


# ------------------------------------------------------------------------------------------------
# driver

def _blank_result(task, error):
    return dict(scenario=task[1], paths=0, transitions=0, checks=0, solver_time=0.0, obligations=0, discharged=0,
                discharged_batch=0, discharged_defs=0, candidates=0, violations=[], known=[], inconclusive=[],
                validated=0, tv_skipped=0, tv_mismatch=[], samples=[], functions=[], complete=False,
                error=error, twin=False, twin_ok=None, cache_hits=0, sub_paths=0,
                unknown_feas=0, concretized=0, aborted=0, labels={}, bounds={}, wall=0.0,
                xcheck=dict(checked=0, agree=0, unknown=0, disagree=0))


def _worker(inq, outq):
    try:    # die with the parent (a killed check must not leave workers behind)
        import ctypes
        import signal
        ctypes.CDLL('libc.so.6', use_errno=True).prctl(1, signal.SIGKILL)
    except Exception:
        pass
    while True:
        t = inq.get()
        if t is None:
            return
        outq.put(('start', os.getpid(), t))
        extra = len(t) > 6 and t[6] is not None
        if extra:
            left = t[6] - time.time()
            if left < 20:
                r = _blank_result(t, None)
                r['skipped_for_time'] = True
                outq.put(('done', os.getpid(), r))
                continue
            t = t[:4] + (min(t[4], left),) + t[5:]
        r = run_scenario(t)
        if extra and r.get('error') and 'budget exhausted' in r['error'] and not r['violations'] and not r['inconclusive']:
            # a thorough-only scenario cut by the wall-clock limit of the tier: reported as partial, not as a failure
            r['partial'] = r['error']
            r['error'] = None
        outq.put(('done', os.getpid(), r))


def _run_pool(tasks, n):
    """plain worker processes fed from a queue (ProcessPoolExecutor/Pool with task recycling can dead-lock on 3.12)"""
    ctxm = mp.get_context('spawn')
    inq, outq = ctxm.Queue(), ctxm.Queue()
    for t in tasks:
        inq.put(t)
    for _ in range(n):
        inq.put(None)
    procs = [ctxm.Process(target=_worker, args=(inq, outq), daemon=True) for _ in range(n)]
    for p in procs:
        p.start()
    running = {}
    results = []
    import queue as _q
    while len(results) < len(tasks):
        try:
            kind, wpid, payload = outq.get(timeout=5)
        except _q.Empty:
            # a worker that died (out of memory, crash inside the solver library) loses its task
            for p in procs:
                if not p.is_alive() and p.pid in running:
                    t = running.pop(p.pid)
                    results.append(_blank_result(t, 'worker died with exit code %s' % p.exitcode))
            if not any(p.is_alive() for p in procs) and outq.empty():
                break
            continue
        if kind == 'start':
            running[wpid] = payload
        else:
            running.pop(wpid, None)
            results.append(payload)
            if os.environ.get('SX_VERBOSE'):
                r = payload
                print('  done %-40s paths=%-6d obl=%-6d wall=%.1fs %s' % (
                    r['scenario'], r['paths'], r['obligations'], r['wall'], r['error'] or ''), flush=True)
    for p in procs:
        p.join(timeout=5)
        if p.is_alive():
            p.terminate()
    done = {(r['scenario']) for r in results}
    return results


def main(argv=None):
    ap = argparse.ArgumentParser()
    ap.add_argument('pid')
    ap.add_argument('--tier', default=os.environ.get('VERIF_TIER', 'quick'))
    ap.add_argument('--replay')
    ap.add_argument('--only')
    ap.add_argument('--jobs', type=int, default=int(os.environ.get('VERIF_JOBS', '16')))
    ap.add_argument('--no-evidence', action='store_true')
    ap.add_argument('--serial', action='store_true')
    ap.add_argument('--budget', type=float, default=None, help='wall seconds per scenario')
    a = ap.parse_args(argv)
    pid = a.pid.upper()
    if a.replay:
        return replay(pid, a.replay)
    seed = int(os.environ.get('VERIF_SEED', '0') or 0)
    t0 = time.time()
    prop = load_prop(pid)
    scns = tier_scenarios(prop, a.tier)
    if a.only:
        scns = [s for s in scns if fnmatch.fnmatch(s.name, a.only)]
    if a.budget is None:
        a.budget = float(os.environ.get('SX_BUDGET_S', '700' if a.tier == 'quick' else '900'))
    deadline = None
    base = set()
    if a.tier == 'thorough' and not a.only:
        # the thorough tier = every quick scenario (always run to completion) + the deeper scenarios, which are run in
        # ascending order of estimated cost until the wall-clock limit of the tier; what was skipped is reported
        deadline = t0 + float(os.environ.get('SX_THOROUGH_WALL_S', '600'))
        base = {s.name for s in prop.scenarios('quick')}
    first = sorted([s for s in scns if s.name in base or deadline is None], key=lambda s: -s.weight)
    extras = sorted([s for s in scns if not (s.name in base or deadline is None)], key=lambda s: s.weight)
    tasks = []
    for s in first + extras:
        dl = deadline if (deadline is not None and s.name not in base) else None
        if s.shards > 1 and not s.twin:
            tasks.extend((pid, s.name, a.tier, seed, a.budget, (j, s.shards), dl) for j in range(s.shards))
        else:
            tasks.append((pid, s.name, a.tier, seed, a.budget, None, dl))
    results = []
    lem_box = []
    lem_thread = None
    if not a.only:
        import threading
        from . import lemmas as _lem

        def _run_lemmas():
            try:
                lem_box.extend(_lem.run(pid))
            except Exception as e:      # the second engine never decides a property on its own
                lem_box.append(dict(lemma='*', engine='crosshair-tool (z3)', verdict='inconclusive',
                                    detail='%s: %s' % (type(e).__name__, e)))
        lem_thread = threading.Thread(target=_run_lemmas, daemon=True)
        lem_thread.start()
    if a.serial or len(tasks) == 1:
        for t in tasks:
            results.append(run_scenario(t))
    else:
        results = _run_pool(tasks, min(a.jobs, len(tasks)))
    if lem_thread is not None:
        lem_thread.join(timeout=300)
    return finish(pid, a, seed, prop, results, time.time() - t0, lem_box)


def _merge_shards(results):
    by = {}
    order = []
    for r in results:
        k = r['scenario']
        if k not in by:
            by[k] = r
            order.append(k)
            r['shards'] = 1
            continue
        m = by[k]
        m['shards'] += 1
        for f in ('paths', 'transitions', 'checks', 'solver_time', 'obligations', 'discharged', 'discharged_batch',
                  'discharged_defs', 'candidates', 'validated', 'tv_skipped', 'cache_hits', 'unknown_feas', 'concretized',
                  'sub_paths',
                  'aborted'):
            m[f] += r[f]
        for f in ('violations', 'known', 'inconclusive', 'tv_mismatch', 'samples'):
            m[f] = m[f] + r[f]
        m['functions'] = sorted(set(m['functions']) | set(r['functions']))
        m['complete'] = m['complete'] and r['complete']
        m['skipped_for_time'] = m.get('skipped_for_time', False) or r.get('skipped_for_time', False)
        m['partial'] = m.get('partial') or r.get('partial')
        m['error'] = m['error'] or r['error']
        m['wall'] = max(m['wall'], r['wall'])
        for lk, lv in r['labels'].items():
            m['labels'][lk] = m['labels'].get(lk, 0) + lv
        for xk, xv in r.get('xcheck', {}).items():
            m['xcheck'][xk] = m['xcheck'].get(xk, 0) + xv
    return [by[k] for k in order]


def finish(pid, a, seed, prop, results, wall, lemmas_out=()):
    results = _merge_shards(results)
    known = load_known()
    violations = []
    inconclusive = []
    known_hit = {}
    errors = []
    for r in results:
        if r['error']:
            errors.append('%s: %s' % (r['scenario'], r['error']))
            if r.get('traceback') and os.environ.get('SX_VERBOSE'):
                print(r['traceback'])
        if r['twin']:
            if not r['twin_ok']:
                errors.append('%s: reachability twin did not reach its end (vacuous harness)' % r['scenario'])
            continue
        if r['paths'] == 0 and not r['error'] and not r.get('skipped_for_time') and not r.get('partial'):
            errors.append('%s: no feasible path (vacuous)' % r['scenario'])
        for v in r['violations']:
            violations.append(dict(v, scenario=r['scenario']))
        for k in r['known']:
            known_hit.setdefault(k['kf'], []).append('%s/%s' % (r['scenario'], k['label']))
        for i in r['inconclusive']:
            inconclusive.append(dict(i, scenario=r['scenario']))
        for m in r['tv_mismatch']:
            errors.append('%s: translation validation: %s' % (r['scenario'], json.dumps(m)[:600]))
    # confirm each violation in a fresh process against the real library
    confirmed = []
    # every violation has already been reproduced in its worker process; the fresh-process confirmation is done for one
    # violation per (scenario, obligation family), at most MAX_CONFIRM of them, in parallel
    MAX_CONFIRM = int(os.environ.get('SX_MAX_CONFIRM', '12'))
    todo, seen_keys = [], set()
    for v in violations:
        key = (v['scenario'], v['label'].split('[')[0])
        if key in seen_keys:
            continue
        seen_keys.add(key)
        todo.append(v)
    not_reconfirmed = max(0, len(todo) - MAX_CONFIRM)
    todo = todo[:MAX_CONFIRM]

    def _confirm(v):
        cp = subprocess.run([sys.executable, '-m', 'sx.runner', pid, '--replay', v['replay']], cwd=VERIF,
                            capture_output=True, text=True, env=dict(os.environ, OMP_NUM_THREADS='1'))
        return cp.returncode
    if todo:
        from concurrent.futures import ThreadPoolExecutor
        with ThreadPoolExecutor(max_workers=min(8, len(todo))) as ex:
            codes = list(ex.map(_confirm, todo))
        for v, rc in zip(todo, codes):
            if rc == 1:
                confirmed.append(v)
            else:
                inconclusive.append(dict(scenario=v['scenario'], label=v['label'],
                                         reason='in-process replay reproduced, fresh-process replay did not'))
    if not_reconfirmed:
        print('NOTE property=%s %d further reproduced violations were not re-confirmed in a fresh process' % (
            pid, not_reconfirmed))
    for kf, where in sorted(known_hit.items()):
        print('KNOWN-FINDING: property=%s %s [%s; %d obligations, e.g. %s]' % (
            pid, known[kf]['what'], kf, len(where), where[0]))
    seen = set()
    for v in confirmed:
        key = (v['scenario'], v['label'].split('[')[0])
        if key in seen:
            continue
        seen.add(key)
        print('VIOLATION property=%s replay=%s' % (pid, v['replay']))
        print('  scenario=%s obligation=%s replay level=%d%s' % (v['scenario'], v['label'], v['level'],
                                                                 ' (real library crashed: %s)' % v['crash'] if v.get('crash') else ''))
    lemma_viol = []
    for lr in lemmas_out:
        if lr.get('verdict') == 'violation':
            from . import lemmas as _lem
            pth = _lem.save_replay(pid, lr, os.environ.get('SX_REPLAY_DIR') or os.path.join(EVID, 'replays'))
            lemma_viol.append(lr)
            print('VIOLATION property=%s replay=%s' % (pid, pth))
            print('  CrossHair lemma %s: %s' % (lr['lemma'], lr.get('call')))
    for i in inconclusive[:10]:
        print('INCONCLUSIVE property=%s scenario=%s obligation=%s: %s' % (pid, i['scenario'], i['label'], i['reason']))
    for e in errors[:10]:
        print('HARNESS-ERROR property=%s %s' % (pid, e))
    real = [r for r in results if not r['twin']]
    states = sum(r['paths'] + r.get('sub_paths', 0) for r in real)
    cov = dict(
        states=states,
        transitions=sum(r['transitions'] for r in real),
        traces_validated_against_impl=sum(r['validated'] for r in real),
        samples=[s for r in real for s in r['samples']][:6] or [dict(note='no path completed')],
        obligations=sum(r['obligations'] for r in real),
        discharged=sum(r['discharged'] for r in real),
        discharged_only_with_definitions=sum(r['discharged_defs'] for r in real),
        discharged_by_prefix_cache=sum(r['cache_hits'] for r in real),
        candidates_sat_or_unknown=sum(r['candidates'] for r in real),
        violations_reproduced=len(confirmed),
        known_findings_matched={k: len(v) for k, v in known_hit.items()},
        inconclusive=len(inconclusive),
        solver_calls=sum(r['checks'] for r in results),
        solver_time_s=round(sum(r['solver_time'] for r in results), 2),
        feasibility_unknown_explored_both=sum(r['unknown_feas'] for r in results),
        concretisations=sum(r['concretized'] for r in results),
        infeasible_paths_cut=sum(r['aborted'] for r in results),
        translation_validation_skipped=sum(r['tv_skipped'] for r in real),
        second_solver=dict(solver='cvc5 %s' % _cvc5v(), what='a sample of the obligation queries z3 answered unsat, re-decided '
                           'from their SMT-LIB2 export', **{k: sum(r.get('xcheck', {}).get(k, 0) for r in real)
                                                           for k in ('checked', 'agree', 'unknown', 'disagree')}),
        crosshair_lemmas=[{k: v for k, v in lr.items() if k != 'source'} for lr in lemmas_out],
        functions_encoded=sorted({f for r in results for f in r['functions']}),
        obligation_labels=_merge_labels(real),
        scenarios=[dict(name=r['scenario'], paths=r['paths'], nested_paths=r.get('sub_paths', 0), obligations=r['obligations'], wall_s=r['wall'],
                        complete=r['complete'], bounds=r['bounds'], twin=r['twin']) for r in results],
        scenarios_skipped_at_the_wall_clock_limit=[r['scenario'] for r in results if r.get('skipped_for_time')],
        scenarios_cut_by_the_wall_clock_limit=[r['scenario'] for r in results if r.get('partial')],
        reachability_twins=dict(total=sum(1 for r in results if r['twin']),
                                violated_as_required=sum(1 for r in results if r['twin'] and r['twin_ok'])),
        bounds=getattr(prop, 'BOUNDS', {}).get(a.tier, {}),
        outside_the_claim=getattr(prop, 'OUTSIDE', []),
        engine='sx: symbolic execution of the real mabwiser modules (imported from %s) on numpy object arrays '
               'with z3 %s; one fresh solver per query' % (os.environ.get('MABWISER_REPO', '/repo'), _z3v()),
        exhaustive=all(r['complete'] for r in results if not r['twin']) and not errors and
        not any(r.get('skipped_for_time') or r.get('partial') for r in results),
        explanation='every path of every scenario within the stated bounds was executed symbolically; each '
                    'obligation was decided by z3 (unsat = holds for all values on that path)',
    )
    ev = dict(property_id=pid, tier=a.tier if a.tier in ('quick', 'thorough') else 'quick', seed=seed,
              level='model_checking', coverage=cov,
              assumptions=getattr(prop, 'ASSUMPTIONS', []), wall_s=round(wall, 2),
              violations=len(confirmed) + len(lemma_viol))
    if not a.no_evidence and not a.only:
        os.makedirs(EVID, exist_ok=True)
        with open(os.path.join(EVID, '%s.json' % pid), 'w') as f:
            json.dump(ev, f, indent=1)
    print('%s %s: %d scenarios, %d paths, %d obligations (%d unsat), %d solver calls, %.1fs solver, %.1fs wall' % (
        pid, a.tier, len(results), states, cov['obligations'], cov['discharged'], cov['solver_calls'],
        cov['solver_time_s'], wall))
    if confirmed or lemma_viol:
        return 1
    if inconclusive or errors:
        return 2
    return 0


def _merge_labels(rs):
    out = {}
    for r in rs:
        for k, v in r['labels'].items():
            out[k] = out.get(k, 0) + v
    return out


def _cvc5v():
    try:
        import cvc5
        return cvc5.__version__
    except Exception:
        return '?'


def _z3v():
    try:
        import z3
        return z3.get_version_string()
    except Exception:
        return '?'


if __name__ == '__main__':
    sys.exit(main())
