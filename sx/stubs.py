"""sx.stubs - nondeterministic environment: numpy Generator, sklearn estimators, joblib.

Each stub returns *arbitrary* values constrained only by the documented contract of what it replaces.
Outputs are uninterpreted functions of the (normalised) inputs, so that equal call histories give
syntactically identical terms.  Every output is appended to ctx.script so that a replay can feed the
model's values to the real mabwiser code in the same order.
"""
import copy
import itertools

import numpy as np
import z3

from .core import (SV, SB, I, R, REG, Unsupported, PathAbort, cur, isym, lift, model_value, purify, to_real, uf)

RS = z3.DeclareSort('RngState')


def _arg(x):
    return purify(to_real(lift(x)))


def _n(size):
    if size is None:
        return 1
    if isinstance(size, (tuple, list)):
        return int(np.prod([int(s) for s in size]))
    return int(size)


def _shape(a, size):
    if size is None:
        return a[0]
    return a.reshape(size)


def _objs(vals):
    a = np.empty(len(vals), dtype=object)
    for i, v in enumerate(vals):
        a[i] = v
    return a


class SymGenerator:
    """stands in for numpy.random.Generator behind mabwiser.utils._NumpyRNG (whose own code is kept)"""

    def __init__(self, seed=None, state=None):
        self.seed = seed
        if state is None:
            s = lift(seed)
            if s.sort() != I:
                s = z3.ToInt(s)
            state = uf('rng_init', I, RS)(s)
        self.state = state

    def __deepcopy__(self, memo):
        return SymGenerator(self.seed, self.state)

    def __reduce__(self):
        REG.append((self.seed, self.state))
        return (_unpickle_gen, (len(REG) - 1,))

    @property
    def bit_generator(self):
        """numpy's Generator.bit_generator: its `state` is a record (PCG64 state / inc, has_uint32, uinteger) of
        uninterpreted projections of the abstract stream position; assigning a record builds the position BG_MK(fields).
        The pairing fact BG_MK(proj(s)) == s is added whenever a state is read, so that code which saves and restores
        *every* field gets the same stream back, and code that drops a field does not."""
        return _SymBitGen(self)

    def _step(self, kind, args, n, sort, constrain):
        args = [_arg(a) for a in args]
        sig = [RS] + [R] * len(args)
        st = self.state
        c = cur()
        outs = []
        for i in range(n):
            v = SV(uf('rng_%s_out%d' % (kind, len(args)), *(sig + [I, sort]))(st, *args, z3.IntVal(i)))
            k = constrain(v, i)
            if k is not None:
                c.fact(k)
            outs.append(v)
        self.state = uf('rng_%s_next%d' % (kind, len(args)), *(sig + [I, RS]))(st, *args, z3.IntVal(n))
        c.script.append((kind, [o.e for o in outs]))
        return outs

    # numpy.random.Generator API used by _NumpyRNG
    def random(self, size=None):
        o = self._step('rand', [], _n(size), R, lambda v, i: z3.And(v.e >= 0, v.e < 1))
        cur().log.append(('rand', size, o))
        return _shape(_objs(o), size)

    def integers(self, low, high=None, size=None):
        if high is None:
            low, high = 0, low
        o = self._step('randint', [low, high], _n(size), I,
                       lambda v, i: z3.And(v.e >= lift(low), v.e < lift(high)))
        cur().log.append(('randint', low, high, size, o))
        return _shape(_objs(o), size)

    def choice(self, a, size=None, p=None):
        if not isinstance(a, (int, np.integer)):
            raise Unsupported('Generator.choice on an array')

        def con(v, i):
            cs = [v.e >= 0, v.e < int(a)]
            if p is not None:
                for j, pj in enumerate(p):
                    if isinstance(pj, (SV, SB)):
                        cs.append(z3.Implies(v.e == j, lift(pj) > 0))
                    elif not pj > 0:
                        cs.append(v.e != j)
            return z3.And(cs)
        o = self._step('choice', list(p) if p is not None else [], _n(size), I, con)
        c = cur()
        vals = [c.concretize(v, 0, int(a)) for v in o]
        c.log.append(('choice', a, None if p is None else list(p), vals))
        return vals[0] if size is None else np.array(vals).reshape(size)

    def beta(self, a, b, size=None):
        o = self._step('beta', [a, b], _n(size), R, lambda v, i: z3.And(v.e > 0, v.e < 1))
        cur().log.append(('beta', a, b, size, o))
        return _shape(_objs(o), size)

    def standard_normal(self, size=None):
        o = self._step('normal', [], _n(size), R, lambda v, i: None)
        cur().log.append(('standard_normal', size, o))
        return _shape(_objs(o), size)

    def multivariate_normal(self, mean, cov, size=None, method='svd', **kw):
        mean = np.asarray(mean, dtype=object).reshape(-1)
        cov = np.asarray(cov, dtype=object)
        d = len(mean)
        if cov.shape != (d, d):
            raise ValueError('cov must be 2 dimensional and square')
        m = _n(size)
        zero_cov = all(z3.is_rational_value(z3.simplify(to_real(lift(x)))) and
                       z3.simplify(to_real(lift(x))).numerator_as_long() == 0 for x in cov.reshape(-1))
        if zero_cov:
            outs = [SV(to_real(lift(mean[j]))) for _ in range(m) for j in range(d)]
            cur().script.append(('mvn', [o.e for o in outs]))
        else:
            outs = self._step('mvn', list(mean) + list(cov.reshape(-1)), m * d, R, lambda v, i: None)
        cur().log.append(('multivariate_normal', mean.copy(), cov.copy(), size, outs))
        a = _objs(outs).reshape(m, d)
        if size is None:
            return a[0]
        if isinstance(size, (tuple, list)):
            return a.reshape(tuple(size) + (d,))
        return a

    def dirichlet(self, alpha, size=None):
        alpha = list(alpha)
        k = len(alpha)
        n = _n(size)
        o = self._step('dirichlet', alpha, n * k, R, lambda v, i: z3.And(v.e >= 0, v.e <= 1))
        c = cur()
        for r in range(n):
            c.fact(z3.Sum([o[r * k + j].e for j in range(k)]) == 1)
        c.log.append(('dirichlet', alpha, size, o))
        a = _objs(o).reshape(n, k)
        if size is None:
            return a[0]
        if isinstance(size, (tuple, list)):
            return a.reshape(tuple(size) + (k,))
        return a


def _unpickle_gen(i):
    return SymGenerator(*REG[i])


_BG_FIELDS = ('state', 'inc', 'has_uint32', 'uinteger')


class _SymBitGen:
    def __init__(self, gen):
        self._g = gen

    @property
    def state(self):
        st = self._g.state
        proj = [uf('bg_' + f, RS, I)(st) for f in _BG_FIELDS]
        # which field values the real bit generator can have at this point is not modelled: a counterexample on a path
        # that reads or writes the bit generator state counts only if the real generator reproduces it (level 1)
        cur().scratch['level1_only'] = True
        cur().fact(uf('bg_mk', I, I, I, I, RS)(*proj) == st)
        return {'bit_generator': 'PCG64', 'state': {'state': SV(proj[0]), 'inc': SV(proj[1])},
                'has_uint32': SV(proj[2]), 'uinteger': SV(proj[3])}

    @state.setter
    def state(self, d):
        def i(x):
            t = lift(x)
            return t if t.sort() == I else z3.ToInt(t)
        self._g.state = uf('bg_mk', I, I, I, I, RS)(i(d['state']['state']), i(d['state']['inc']), i(d['has_uint32']),
                                                    i(d['uinteger']))


class _RecBitGen:
    """bit generator of the scripted (level 2) generator: the stream is scripted, so its state is inert"""

    def __init__(self):
        self._st = {'bit_generator': 'PCG64', 'state': {'state': 0, 'inc': 1}, 'has_uint32': 0, 'uinteger': 0}

    @property
    def state(self):
        return dict(self._st, state=dict(self._st['state']))

    @state.setter
    def state(self, d):
        self._st = dict(d)


class SymRandomState:
    """np.random.RandomState(seed) handed to an estimator: a stateful stream; every estimator fit that draws from it
    sees (and advances) the current position"""

    def __init__(self, seed=None, state=None):
        self.seed = seed
        if state is None:
            s = lift(seed if seed is not None else 0)
            if s.sort() != I:
                s = z3.ToInt(s)
            state = uf('rs_init', I, RS)(s)
        self.state = state

    def take(self):
        ident = uf('rs_ident', RS, I)(self.state)
        self.state = uf('rs_next', RS, RS)(self.state)
        return ident

    def __deepcopy__(self, memo):
        return SymRandomState(self.seed, self.state)

    def __reduce__(self):
        REG.append((self.seed, self.state))
        return (_unpickle_rs, (len(REG) - 1,))


def _unpickle_rs(i):
    return SymRandomState(*REG[i])


# ------------------------------------------------------------------------------------------------
# concrete generators used by replays (real mabwiser code, no symbolic values)

class RecordingGenerator:
    """real numpy Generator; records sampler calls so that obligations about distribution parameters
    can be evaluated on the real library"""

    def __init__(self, seed, log):
        self._g = np.random.default_rng(seed)
        self._log = log
        self.seed = seed

    def __deepcopy__(self, memo):
        c = RecordingGenerator.__new__(RecordingGenerator)
        c._g = copy.deepcopy(self._g)
        c._log = self._log
        c.seed = self.seed
        return c

    def __getstate__(self):
        return {'_g': self._g, 'seed': self.seed}

    def __setstate__(self, st):
        self._g = st['_g']
        self.seed = st['seed']
        self._log = CURRENT_LOG[0]

    @property
    def bit_generator(self):
        return self._g.bit_generator

    def random(self, size=None):
        o = self._g.random(size)
        self._log.append(('rand', size, np.asarray(o).reshape(-1).tolist()))
        return o

    def integers(self, low, high=None, size=None):
        o = self._g.integers(low=low, high=high, size=size)
        self._log.append(('randint', low, high, size, np.asarray(o).reshape(-1).tolist()))
        return o

    def choice(self, a, size=None, p=None):
        o = self._g.choice(a=a, size=size, p=p)
        self._log.append(('choice', a, None if p is None else list(p), np.asarray(o).reshape(-1).tolist()))
        return o

    def beta(self, a, b, size=None):
        o = self._g.beta(a, b, size)
        self._log.append(('beta', a, b, size, np.asarray(o).reshape(-1).tolist()))
        return o

    def standard_normal(self, size=None):
        o = self._g.standard_normal(size)
        self._log.append(('standard_normal', size, np.asarray(o).reshape(-1).tolist()))
        return o

    def multivariate_normal(self, mean, cov, size=None, method='svd', **kw):
        o = self._g.multivariate_normal(mean, cov, size=size, method=method, **kw)
        self._log.append(('multivariate_normal', np.array(mean, dtype=float), np.array(cov, dtype=float), size,
                          np.asarray(o).reshape(-1).tolist()))
        return o

    def dirichlet(self, alpha, size=None):
        o = self._g.dirichlet(alpha, size)
        self._log.append(('dirichlet', list(alpha), size, np.asarray(o).reshape(-1).tolist()))
        return o


CURRENT_LOG = [None]


class StopReplay(Exception):
    """the block of interest has been replayed; the rest of the scenario is not needed"""


class ReplayDiverged(Exception):
    """the concrete run asked the scripted environment for something the symbolic path did not"""


class Script:
    def __init__(self, entries):
        self.entries = list(entries)
        self.pos = 0

    def take(self, kind, n=None):
        if self.pos >= len(self.entries):
            raise ReplayDiverged('script exhausted at %s' % kind)
        k, vals = self.entries[self.pos]
        if k != kind or (n is not None and len(vals) != n):
            raise ReplayDiverged('script has %s/%d, run asked for %s/%s' % (k, len(vals), kind, n))
        self.pos += 1
        return vals


class ScriptedGenerator:
    """returns the values the solver's model assigned to the symbolic generator, in call order"""

    def __init__(self, seed, script, log):
        self.seed = seed
        self._s = script
        self._log = log

    def __deepcopy__(self, memo):
        return self

    def __reduce__(self):
        SCRIPTED.append(self)
        return (_unpickle_scripted, (len(SCRIPTED) - 1,))

    @property
    def bit_generator(self):
        if not hasattr(self, '_bg'):
            self._bg = _RecBitGen()
        return self._bg

    def random(self, size=None):
        o = np.array(self._s.take('rand', _n(size)), dtype=float)
        self._log.append(('rand', size, o.tolist()))
        return _shape(o, size)

    def integers(self, low, high=None, size=None):
        o = np.array(self._s.take('randint', _n(size)), dtype=np.int64)
        self._log.append(('randint', low, high, size, o.tolist()))
        return _shape(o, size)

    def choice(self, a, size=None, p=None):
        o = np.array(self._s.take('choice', _n(size)), dtype=np.int64)
        self._log.append(('choice', a, None if p is None else list(p), o.tolist()))
        return o[0] if size is None else o.reshape(size)

    def beta(self, a, b, size=None):
        o = np.array(self._s.take('beta', _n(size)), dtype=float)
        self._log.append(('beta', a, b, size, o.tolist()))
        return _shape(o, size)

    def standard_normal(self, size=None):
        o = np.array(self._s.take('normal', _n(size)), dtype=float)
        self._log.append(('standard_normal', size, o.tolist()))
        return _shape(o, size)

    def multivariate_normal(self, mean, cov, size=None, method='svd', **kw):
        d = len(mean)
        m = _n(size)
        o = np.array(self._s.take('mvn', m * d), dtype=float).reshape(m, d)
        self._log.append(('multivariate_normal', np.array(mean, dtype=float), np.array(cov, dtype=float), size,
                          o.reshape(-1).tolist()))
        if size is None:
            return o[0]
        if isinstance(size, (tuple, list)):
            return o.reshape(tuple(size) + (d,))
        return o

    def dirichlet(self, alpha, size=None):
        k = len(alpha)
        n = _n(size)
        o = np.array(self._s.take('dirichlet', n * k), dtype=float).reshape(n, k)
        self._log.append(('dirichlet', list(alpha), size, o.reshape(-1).tolist()))
        if size is None:
            return o[0]
        if isinstance(size, (tuple, list)):
            return o.reshape(tuple(size) + (k,))
        return o


SCRIPTED = []


def _unpickle_scripted(i):
    return SCRIPTED[i]


# ------------------------------------------------------------------------------------------------
# sklearn stubs

def _matkey(X):
    X = np.asarray(X, dtype=object)
    return tuple(_arg(v) for v in X.reshape(-1))


class KMeansStub:
    """predict(row) = KM(random_state, training matrix, row) in [0, k); labels_ = predict(training rows)"""
    KIND = 'kmeans'

    def __init__(self, n_clusters=8, random_state=None, n_init='auto', copy_x=True, **kw):
        self.n_clusters = n_clusters
        self.random_state = random_state
        self.n_init = n_init
        self.copy_x = copy_x
        self._fitted = None

    def __deepcopy__(self, memo):
        c = type(self)(self.n_clusters, copy.deepcopy(self.random_state, memo), self.n_init, self.copy_x)
        c._fitted = self._fitted
        if hasattr(self, 'labels_'):
            c.labels_ = self.labels_.copy()
        return c

    def __reduce__(self):
        REG.append(copy.deepcopy(self))
        return (_unpickle_reg, (len(REG) - 1,))

    def fit(self, X, y=None, sample_weight=None):
        X = np.asarray(X)
        if X.ndim != 2:
            raise ValueError('Expected 2D array')
        if X.shape[0] < self.n_clusters:
            raise ValueError('n_samples=%d should be >= n_clusters=%d.' % (X.shape[0], self.n_clusters))
        if isinstance(self.random_state, SymRandomState):
            rs = self.random_state.take()
        else:
            rs = lift(self.random_state if self.random_state is not None else 0)
            if rs.sort() != I:
                rs = z3.ToInt(rs)
        self._fitted = (X.shape, _matkey(X), rs)
        self.labels_ = self.predict(X)
        if not self.copy_x and self.KIND == 'kmeans' and isinstance(X, np.ndarray) and X.dtype == object \
                and X.flags.c_contiguous and X.flags.writeable:
            # sklearn: "if copy_x is False the original data is modified and put back before the function returns, but
            # small numerical differences may be introduced": the array that was handed in holds arbitrary new values
            c = cur()
            for idx in np.ndindex(X.shape):
                X[idx] = X[idx] + c.fresh('kmeans_copy_x_perturbation', 'Real')
        return self

    def predict(self, X):
        if self._fitted is None:
            raise AttributeError('This KMeans instance is not fitted yet.')
        X = np.asarray(X)
        shape, key, rs = self._fitted
        d = shape[1]
        if X.ndim != 2 or X.shape[1] != d:
            raise ValueError('X has %s features, but KMeans is expecting %d features as input.' % (X.shape[1:], d))
        f = uf('%s_%dx%d' % (self.KIND, shape[0], d), *([I] + [R] * (len(key) + d) + [I]))
        c = cur()
        out = []
        terms = []
        for row in X:
            v = SV(f(rs, *key, *[_arg(x) for x in row]))
            c.fact(z3.And(v.e >= 0, v.e < self.n_clusters))
            terms.append(v.e)
            out.append(c.concretize(v, 0, self.n_clusters))
        c.script.append((self.KIND, terms))
        return np.array(out, dtype=np.int32)


class MiniBatchKMeansStub(KMeansStub):
    KIND = 'mbkmeans'


def _unpickle_reg(i):
    return copy.deepcopy(REG[i])


TREE_LEAVES = [2]   # bound L on the number of distinct leaves of a stub tree
_TREE_PARAMS = None


def _tree_defaults():
    from sklearn.tree import DecisionTreeRegressor
    return DecisionTreeRegressor().get_params()


def _tree_params():
    global _TREE_PARAMS
    if _TREE_PARAMS is None:
        from sklearn.tree import DecisionTreeRegressor
        _TREE_PARAMS = set(DecisionTreeRegressor().get_params().keys())
    return _TREE_PARAMS


class TreeStub:
    """apply(row) = T(random_state, training X, training y, row) in 1..L; every leaf contains at least
    one training row"""

    def __init__(self, **params):
        bad = set(params) - _tree_params()
        if bad:
            raise TypeError("DecisionTreeRegressor.__init__() got an unexpected keyword argument '%s'" % sorted(bad)[0])
        self._params = dict(params)
        self.__dict__.update(_tree_defaults())
        self.__dict__.update(params)
        self._fitted = None

    def get_params(self, deep=True):
        return dict(_tree_defaults(), **self._params)

    def __deepcopy__(self, memo):
        c = TreeStub(**self._params)
        c._fitted = self._fitted
        c._unseeded = getattr(self, '_unseeded', None)
        for k in ('feature_importances_', 'rng', 'n_features_in_'):
            if k in self.__dict__:
                c.__dict__[k] = self.__dict__[k]
        return c

    def __reduce__(self):
        REG.append(copy.deepcopy(self))
        return (_unpickle_reg, (len(REG) - 1,))

    def fit(self, X, y, **kw):
        X = np.asarray(X)
        y = np.asarray(y)
        if X.ndim != 2:
            raise ValueError('Expected 2D array')
        if X.shape[0] != len(y):
            raise ValueError('Number of labels does not match number of samples')
        self._fitted = (X.shape, _matkey(X), _matkey(y), [tuple(_arg(x) for x in row) for row in X])
        # random_state=None: scikit-learn draws from numpy's process-global generator, i.e. the tree is a function of
        # something outside the bandit - an arbitrary fresh value per fit
        self._unseeded = cur().fresh('tree_unseeded_fit', 'Int').e if self._params.get('random_state') is None else None
        self.n_features_in_ = X.shape[1]
        self.feature_importances_ = np.zeros(X.shape[1])
        return self

    def apply(self, X):
        if self._fitted is None:
            raise AttributeError('This DecisionTreeRegressor instance is not fitted yet.')
        X = np.asarray(X, dtype=object)
        shape, kx, ky, rows = self._fitted
        d = shape[1]
        if X.ndim != 2 or X.shape[1] != d:
            raise ValueError('X has %d features, but DecisionTreeRegressor is expecting %d features as input.'
                             % (X.shape[-1], d))
        L = max(1, min(TREE_LEAVES[0], shape[0]))
        f = uf('tree_%dx%d' % (shape[0], d), *([I] + [R] * (len(kx) + len(ky) + d) + [I]))
        rs = lift(self._params.get('random_state') if self._params.get('random_state') is not None else 0)
        if rs.sort() != I:
            rs = z3.ToInt(rs)
        if getattr(self, '_unseeded', None) is not None:
            rs = self._unseeded
        c = cur()
        out = []
        terms = []
        train_leaves = [f(rs, *kx, *ky, *r) for r in rows]
        for row in X:
            v = SV(f(rs, *kx, *ky, *[_arg(x) for x in row]))
            c.fact(z3.And(v.e >= 1, v.e <= L))
            c.fact(z3.Or([v.e == t for t in train_leaves]))
            terms.append(v.e)
            out.append(c.concretize(v, 1, L + 1))
        c.script.append(('tree', terms))
        return np.array(out, dtype=np.int64)


class ScriptedKMeans:
    KIND = 'kmeans'

    def __init__(self, n_clusters=8, random_state=None, n_init='auto', **kw):
        self.n_clusters = n_clusters
        self.random_state = random_state
        self._d = None

    def fit(self, X, y=None, sample_weight=None):
        X = np.asarray(X)
        if X.shape[0] < self.n_clusters:
            raise ValueError('n_samples=%d should be >= n_clusters=%d.' % (X.shape[0], self.n_clusters))
        self._d = X.shape[1]
        self.labels_ = self.predict(X)
        return self

    def predict(self, X):
        X = np.asarray(X)
        if X.ndim != 2 or X.shape[1] != self._d:
            raise ValueError('X has %s features, but KMeans is expecting %s features as input.' % (X.shape[1:], self._d))
        return np.array(SCRIPT[0].take(self.KIND, len(X)), dtype=np.int32)


class ScriptedMiniBatchKMeans(ScriptedKMeans):
    KIND = 'mbkmeans'


class ScriptedTree:
    def __init__(self, **params):
        bad = set(params) - _tree_params()
        if bad:
            raise TypeError("DecisionTreeRegressor.__init__() got an unexpected keyword argument '%s'" % sorted(bad)[0])
        self._params = dict(params)
        self.__dict__.update(_tree_defaults())
        self.__dict__.update(params)
        self._d = None

    def get_params(self, deep=True):
        return dict(_tree_defaults(), **self._params)

    def fit(self, X, y, **kw):
        X = np.asarray(X)
        self._d = X.shape[1]
        self.feature_importances_ = np.zeros(X.shape[1])
        return self

    def apply(self, X):
        X = np.asarray(X)
        if self._d is None:
            raise AttributeError('not fitted')
        if X.ndim != 2 or X.shape[1] != self._d:
            raise ValueError('X has %d features, but DecisionTreeRegressor is expecting %d features as input.'
                             % (X.shape[-1], self._d))
        return np.array(SCRIPT[0].take('tree', len(X)), dtype=np.int64)


SCRIPT = [None]


class StandardScalerStub:
    """population mean / variance per column, exact zeros of scale_ replaced by one (sklearn's
    _handle_zeros_in_scale); single fit only"""

    def __init__(self, copy=True, with_mean=True, with_std=True, **kw):
        if not (with_mean and with_std):
            raise Unsupported('StandardScaler without centring / scaling')
        self.copy = copy

    def __deepcopy__(self, memo):
        c = StandardScalerStub()
        c.__dict__.update({k: (v.copy() if isinstance(v, np.ndarray) else v) for k, v in self.__dict__.items()})
        return c

    def fit(self, X, y=None):
        X = np.asarray(X, dtype=object)
        n = X.shape[0]
        self.n_samples_seen_ = n
        self.mean_ = X.sum(axis=0) / n
        dev = X - self.mean_
        self.var_ = (dev * dev).sum(axis=0) / n
        sc = np.empty(X.shape[1], dtype=object)
        for j in range(X.shape[1]):
            v = self.var_[j]
            if isinstance(v, SV):
                if bool(v == 0):
                    sc[j] = 1
                else:
                    from .npx import _sv
                    sc[j] = _sv(v).sqrt()
            else:
                sc[j] = 1 if v == 0 else SV(lift(v)).sqrt()
        self.scale_ = sc
        return self

    def partial_fit(self, X, y=None):
        raise Unsupported('StandardScaler.partial_fit (running standardisation) is outside the model')

    def transform(self, X, copy=None):
        copy = self.copy if copy is None else copy
        from .npx import SymArray
        if not copy and isinstance(X, SymArray):
            # sklearn standardises a float64 array in place when copy=False (SymArray stands for a float64 array)
            X[...] = (np.asarray(X, dtype=object) - self.mean_) / self.scale_
            return X
        X = np.asarray(X, dtype=object)
        return (X - self.mean_) / self.scale_


# ------------------------------------------------------------------------------------------------
# joblib

PAR_MODE = {'sharedmem': 'seq', 'other': 'seq', 'order_chooser': None}


class ParallelStub:
    """joblib.Parallel at task granularity.
    require='sharedmem': tasks run on the shared object, in program order ('seq') or in an order chosen
    by PAR_MODE['order_chooser'] ('order').
    otherwise: 'seq' runs the tasks in the caller (what n_jobs=1 does); 'proc' runs every task on a deep
    copy of the bound object (what the process based back ends do by pickling)."""

    def __init__(self, n_jobs=None, backend=None, require=None, **kw):
        self.n_jobs = n_jobs
        self.backend = backend
        self.require = require
        PAR_CALLS.append((n_jobs, backend, require))

    def __call__(self, tasks):
        tasks = list(tasks)
        if self.require == 'sharedmem':
            order = list(range(len(tasks)))
            if PAR_MODE['sharedmem'] == 'order' and PAR_MODE['order_chooser'] is not None and len(tasks) > 1:
                order = PAR_MODE['order_chooser'](len(tasks))
            res = [None] * len(tasks)
            for i in order:
                f, a, k = tasks[i]
                res[i] = f(*a, **k)
            return res
        if PAR_MODE['other'] == 'proc':
            res = []
            for f, a, k in tasks:
                bound = getattr(f, '__self__', None)
                if bound is not None:
                    clone = copy.deepcopy(bound)
                    f = getattr(clone, f.__name__)
                res.append(f(*a, **k))
            return res
        return [f(*a, **k) for f, a, k in tasks]


PAR_CALLS = []


# ------------------------------------------------------------------------------------------------
# PYTHONHASHSEED: iteration order of sets of strings is chosen by the solver

def make_nondet_hash(env):
    """builtin `hash` inside the mabwiser modules: the hash of anything that contains a str is an arbitrary integer, fresh
    for every call (two runs of the same scenario stand for two interpreters with different PYTHONHASHSEED); other
    objects hash deterministically (symbolic numbers through an uninterpreted function)"""
    import builtins
    counter = [0]

    def leaves(o, acc):
        if isinstance(o, (tuple, list, frozenset)):
            for x in o:
                leaves(x, acc)
        else:
            acc.append(o)
        return acc

    def sx_hash(obj):
        ls = leaves(obj, [])
        if any(isinstance(x, (str, bytes)) for x in ls):
            counter[0] += 1
            return env.integer('pyhash%d' % counter[0], -2 ** 63, 2 ** 63 - 1)
        if any(isinstance(x, (SV, SB)) for x in ls):
            ts = [_arg(x) if isinstance(x, (SV, SB, int, float, np.integer, np.floating)) else z3.RealVal(builtins.hash(x) % 1000003)
                  for x in ls]
            return SV(uf('pyhash_det%d' % len(ts), *([R] * len(ts) + [I]))(*ts))
        return builtins.hash(obj)
    return sx_hash


def make_nondet_set(env):
    import itertools as _it
    counter = [0]

    class NondetSet(set):
        """builtin `set` inside the mabwiser modules: a set that contains str elements iterates in an arbitrary
        (solver-chosen) order, as it does under an arbitrary PYTHONHASHSEED"""

        def __iter__(self):
            items = list(set.__iter__(self))
            if len(items) > 1 and any(isinstance(x, str) for x in items):
                try:
                    items.sort(key=lambda x: (str(type(x)), x))
                except TypeError:
                    pass
                counter[0] += 1
                perms = list(_it.permutations(range(len(items))))
                order = env.choose('setorder%d' % counter[0], perms)
                items = [items[i] for i in order]
            return iter(items)

        def _wrap(self, r):
            return NondetSet(r) if isinstance(r, (set, frozenset)) and not isinstance(r, NondetSet) else r

        def intersection(self, *o):
            return NondetSet(set.intersection(set(set.__iter__(self)), *[set(x) for x in o]))

        def union(self, *o):
            return NondetSet(set.union(set(set.__iter__(self)), *[set(x) for x in o]))

        def difference(self, *o):
            return NondetSet(set.difference(set(set.__iter__(self)), *[set(x) for x in o]))

        def symmetric_difference(self, o):
            return NondetSet(set.symmetric_difference(set(set.__iter__(self)), set(o)))

        def copy(self):
            return NondetSet(set.__iter__(self))

        def __and__(self, o):
            return self.intersection(o)

        def __or__(self, o):
            return self.union(o)

        def __sub__(self, o):
            return self.difference(o)

        def __reduce__(self):
            return (set, (list(set.__iter__(self)),))
    return NondetSet
