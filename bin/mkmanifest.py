#!/usr/bin/env python3
"""regenerates MANIFEST.json from the table below (keeps the file valid at all times)"""
import json, os
HERE = os.path.dirname(os.path.dirname(os.path.abspath(__file__)))
T = json.load(open(os.path.join(HERE, 'manifest_table.json')))
checks = []
for c in T['checks']:
    pid = c['id']
    checks.append(dict(
        property_id=pid,
        quick_cmd='bin/check %s --tier quick' % pid,
        thorough_cmd='bin/check %s --tier thorough' % pid,
        evidence_file='evidence/%s.json' % pid,
        replay_cmd_template='bin/check %s --replay {path}' % pid,
        engine='sx',
        level_claimed=dict(category='model_checking', text=c['text'], design_ref=c.get('design_ref', 'DESIGN.md section 4, %s' % pid)),
        level_note=c['note'],
        technique=c.get('technique', T['default_technique'])))
m = dict(version=1, setup_cmd='bin/setup.sh', hooks=T['hooks'], engines=T['engines'], checks=checks, notes=T['notes'],
         not_applicable=T['not_applicable'])
json.dump(m, open(os.path.join(HERE, 'MANIFEST.json'), 'w'), indent=1)
print('MANIFEST.json: %d checks, %d not applicable' % (len(checks), len(T['not_applicable'])))
