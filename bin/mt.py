#!/usr/bin/env python3
"""mt.py add <ID> <text> <note>  |  mt.py na <ID> <reason>  -- edit manifest_table.json and regenerate MANIFEST.json"""
import json, os, sys, subprocess
HERE = os.path.dirname(os.path.dirname(os.path.abspath(__file__)))
p = os.path.join(HERE, 'manifest_table.json')
T = json.load(open(p))
cmd = sys.argv[1]
if cmd == 'add':
    pid, text, note = sys.argv[2:5]
    T['checks'] = [c for c in T['checks'] if c['id'] != pid] + [dict(id=pid, text=text, note=note)]
    T['checks'].sort(key=lambda c: c['id'])
    T['not_applicable'] = [n for n in T['not_applicable'] if n['property_id'] != pid]
elif cmd == 'na':
    pid, reason = sys.argv[2:4]
    T['checks'] = [c for c in T['checks'] if c['id'] != pid]
    T['not_applicable'] = [n for n in T['not_applicable'] if n['property_id'] != pid] + [dict(property_id=pid, reason=reason)]
    T['not_applicable'].sort(key=lambda c: c['property_id'])
T['engines'][0]['serves_properties'] = [c['id'] for c in T['checks']]
json.dump(T, open(p, 'w'), indent=1)
subprocess.check_call([sys.executable, os.path.join(HERE, 'bin', 'mkmanifest.py')])
