#!/bin/sh
# seedtest.sh <patch.diff> <ID> [tier] [extra bin/check args]: apply a seeded change to /repo, run the check, undo the change.
P=$(realpath $1); ID=$2; TIER=${3:-quick}
[ $# -ge 3 ] && shift 3 || shift 2
cd /repo && git diff --quiet || { echo "repo dirty"; exit 3; }
git -C /repo apply $P || exit 3
trap 'git -C /repo checkout -- .' EXIT INT TERM
cd /verif && bin/check $ID --tier $TIER --no-evidence "$@" > /tmp/seedtest_$ID.log 2>&1; RC=$?
git -C /repo checkout -- .
echo "exit=$RC"; grep -E "^(VIOLATION|KNOWN|INCONCLUSIVE|HARNESS)" /tmp/seedtest_$ID.log | head -5; tail -1 /tmp/seedtest_$ID.log
