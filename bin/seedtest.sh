#!/bin/sh
# seedtest.sh <patch.diff> <ID> [tier] : apply a seeded change to /repo, run the check, undo the change.
P=$1; ID=$2; TIER=${3:-quick}
cd /repo && git diff --quiet || { echo "repo dirty"; exit 3; }
git -C /repo apply $P || exit 3
cd /verif && bin/check $ID --tier $TIER --no-evidence > /tmp/seedtest_$ID.log 2>&1; RC=$?
git -C /repo checkout -- .
echo "exit=$RC"; grep -E "^(VIOLATION|KNOWN|INCONCLUSIVE|HARNESS)" /tmp/seedtest_$ID.log | head -5; tail -1 /tmp/seedtest_$ID.log
