#!/bin/sh
# runall.sh <tier> : run every registered check of the tier in sequence and print one summary line per property
TIER=${1:-quick}
cd "$(dirname "$0")/.."
for id in $(python3 -c "import json; print(' '.join(c['property_id'] for c in json.load(open('MANIFEST.json'))['checks']))"); do
  S=$(date +%s)
  bin/check $id --tier $TIER > /tmp/runall_$id.log 2>&1; RC=$?
  E=$(date +%s)
  echo "$id tier=$TIER exit=$RC wall=$((E-S))s :: $(tail -1 /tmp/runall_$id.log | cut -c1-160)"
done
