#!/bin/sh
# confirm_seed.sh <patch.diff> <demo.py> : in a scratch worktree of /repo HEAD check that the demo passes without and
# fails with the patch, and that the pinned suite is unchanged with the patch. Prints a one-line verdict.
P=$(realpath $1); D=$(realpath $2); NJ=${3:-12}
W=$(mktemp -d /tmp/seedwt.XXXXXX); rmdir $W; L=/tmp/seedconf.$(basename $W)
git -C /repo worktree add --detach $W HEAD -q || exit 3
cd $W
export OMP_NUM_THREADS=1
cp $D $W/_seed_demo.py
PYTHONPATH=$W /venv/bin/python _seed_demo.py >$L.clean 2>&1; C=$?
if ! git apply $P 2>$L.apply; then echo "VERDICT patch-does-not-apply"; cd /; git -C /repo worktree remove --force $W; exit 1; fi
PYTHONPATH=$W /venv/bin/python _seed_demo.py >$L.patched 2>&1; F=$?
/venv/bin/python -m pytest -q -p no:cacheprovider -n $NJ tests -x -q --deselect tests/test_ridge.py::RidgeRegressionTest::test_predict_ridge_scaler --deselect tests/test_mab.py -p no:randomly >$L.suite 2>&1; S=$?
/venv/bin/python -m pytest -q -p no:cacheprovider tests/test_mab.py >$L.suite2 2>&1; S2=$?
cd /; git -C /repo worktree remove --force $W
echo "VERDICT demo_clean_exit=$C demo_patched_exit=$F suite_exit=$S suite_mab_exit=$S2 :: $(tail -1 $L.suite) :: $(tail -1 $L.suite2)"
