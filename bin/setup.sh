#!/bin/sh
# Overlay virtualenv on top of the repository's /venv (numpy, scipy, sklearn, pandas, joblib) with the
# solver stack from the offline wheelhouse. Idempotent; called by MANIFEST.setup_cmd and by every check.
set -e
HERE=$(cd "$(dirname "$0")/.." && pwd)
V="$HERE/.venv"
if [ -x "$V/bin/python" ] && "$V/bin/python" -c "import z3, numpy, crosshair" 2>/dev/null; then
  exit 0
fi
(
  flock 9
  if [ -x "$V/bin/python" ] && "$V/bin/python" -c "import z3, numpy, crosshair" 2>/dev/null; then exit 0; fi
  rm -rf "$V"
  /venv/bin/python -m venv "$V"
  SP=$("$V/bin/python" -c "import sysconfig; print(sysconfig.get_paths()['purelib'])")
  echo "import site; site.addsitedir('/venv/lib/python3.12/site-packages')" > "$SP/overlay.pth"
  PIP_NO_INDEX=1 "$V/bin/pip" install -q --no-index --find-links /opt/veriftools/wheels z3-solver crosshair-tool cvc5 >/dev/null
  "$V/bin/python" -c "import z3, numpy, crosshair; print('verif venv ready: z3', z3.get_version_string())"
) 9>"$HERE/.venv.lock"
