#!/usr/bin/env python3
"""collect_seed.py <worktree> <seed-id> <property>: copy a sub-agent's seeded change (seed_patch.diff, seed_demo.py,
seed_meta.json in its scratch worktree) to seeded/<seed-id>/ and confirm it in a fresh scratch worktree."""
import json, os, shutil, subprocess, sys
wt, sid, prop = sys.argv[1:4]
here = os.path.dirname(os.path.dirname(os.path.abspath(__file__)))
d = os.path.join(here, 'seeded', sid)
os.makedirs(d, exist_ok=True)
patch = subprocess.run(['git', '-C', wt, 'diff', '--', 'mabwiser'], capture_output=True, text=True).stdout
saved = os.path.join(wt, 'seed_patch.diff')
if os.path.exists(saved) and 'mabwiser/' in open(saved).read():
    # the sub-agent's own record of its change (scratch worktrees of one repository share `git stash`, so the working tree
    # may hold somebody else's hunk); the confirmation below decides whether it is kept
    patch = open(saved).read()
open(os.path.join(d, 'patch.diff'), 'w').write(patch)
shutil.copy(os.path.join(wt, 'seed_demo.py'), os.path.join(d, 'demo.py'))
try:
    meta = json.load(open(os.path.join(wt, 'seed_meta.json')))
except Exception as e:
    meta = {'summary': 'seed_meta.json unreadable: %s' % e}
meta = dict(property=prop, seed_id=sid, origin='independent sub-agent given only the property text and a scratch worktree', **meta)
v = subprocess.run([os.path.join(here, 'bin', 'confirm_seed.sh'), os.path.join(d, 'patch.diff'), os.path.join(d, 'demo.py')] + sys.argv[4:5],
                   capture_output=True, text=True).stdout.strip().splitlines()
meta['confirmed'] = v[-1] if v else 'no verdict'
meta['confirmation_cmd'] = 'bin/confirm_seed.sh seeded/%s/patch.diff seeded/%s/demo.py' % (sid, sid)
meta['check_cmd'] = 'bin/seedtest.sh seeded/%s/patch.diff %s' % (sid, prop)
json.dump(meta, open(os.path.join(d, 'meta.json'), 'w'), indent=1)
print(sid, meta['confirmed'])
