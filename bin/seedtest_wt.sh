#!/bin/sh
# seedtest_wt.sh <patch.diff> <ID> [tier] [extra bin/check args]: like seedtest.sh, but the seeded change is applied to a
# scratch worktree of /repo HEAD and the check reads the library from there (MABWISER_REPO), so /repo stays untouched and
# several seeds can be tried at the same time.  The worktree is removed afterwards.
P=$(realpath $1); ID=$2; TIER=${3:-quick}
[ $# -ge 3 ] && shift 3 || shift 2
W=$(mktemp -d /tmp/seedrun.XXXXXX); rmdir $W
git -C /repo worktree add --detach $W HEAD -q || exit 3
trap 'git -C /repo worktree remove --force '$W EXIT INT TERM
git -C $W apply $P || { echo "patch does not apply"; exit 3; }
LOG=/tmp/seedtest_$(basename $(dirname $P)).log
cd /verif && MABWISER_REPO=$W SX_REPLAY_DIR=$W/.replays bin/check $ID --tier $TIER --no-evidence "$@" > $LOG 2>&1; RC=$?
echo "$(basename $(dirname $P)) $ID exit=$RC :: $(grep -E '^(VIOLATION|KNOWN|INCONCLUSIVE|HARNESS)' $LOG | head -40 | grep -A1 -m3 -E '^(VIOLATION|INCONCLUSIVE|HARNESS)' | tr '\n' ' ' | cut -c1-700) :: $(tail -1 $LOG)"
